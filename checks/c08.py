"""C08 - configuration queries always reflect the latest updates.

Effect / ownership analysis of class FlowIRConcrete (model/frontends/flowir.py) and of the
external code that can reach its storage.  See DESIGN.md section C08.
"""
from __future__ import annotations

import ast
from typing import Any, Dict, FrozenSet, List, Optional, Set, Tuple

from vlib import flow, match, source
from vlib.cfg import CFG, Node, own_calls, own_exprs
from vlib.flow import UNKNOWN, eval_const, forward, specialise
from vlib.source import AnalysisError, call_name, dotted, last_attr, short

FLOWIR = "python/experiment/model/frontends/flowir.py"
CONF = "python/experiment/model/conf.py"

BASE_RELEVANT = {"components", "variables", "blueprint"}
MUTATORS = {"update", "clear", "append", "remove", "pop", "extend", "insert", "setdefault", "popitem",
            "sort", "reverse", "__setitem__", "__delitem__"}
PURE_BUILTINS = {"len", "str", "int", "float", "bool", "sorted", "set", "frozenset", "isinstance", "repr",
                 "range", "type", "min", "max", "sum", "any", "all", "id", "hash", "print", "tuple_of_str"}
COPY_CALLS = {"deep_copy", "copy.deepcopy", "deepcopy", "experiment.model.frontends.flowir.deep_copy"}
SPEC_PARAMS = ("return_copy",)

# Frozen minority cases, confirmed by reading; (method, region) -> reason
EXEMPT_WRITES = {
    ("add_platform", "variables"):
        "creates an empty variable scope for a platform that did not exist; get_component_variables raises "
        "FlowIRPlatformUnknown for an unknown platform so no cache entry for it can exist",
    ("get_platform_global_variables", "variables"):
        "inserts empty dictionaries only (a missing scope and an empty scope resolve identically)",
    ("add_component", "components"):
        "appends a component under a new identifier (existing identifier raises FlowIRComponentExists); "
        "delete_component already invalidated any older entry of that identifier",
    ("add_component", "index"):
        "same as above: registers the new identifier in the lookup index",
    ("refresh_component_dictionary", "index"):
        "rebuilds the lookup index from the components list; contents are unchanged, callers that changed the "
        "list are covered by R2 (call sites of get_components(return_copy=False))",
    ("__init__", "components"): "constructor: the cache is created empty in the same call",
    ("__init__", "index"): "constructor: the cache is created empty in the same call",
    ("__init__", "*"): "constructor: the cache is created empty in the same call",
}
# methods that hand out an alias without invalidating; allowed only under R2's call-site rule
ALIAS_HANDOUT_BY_CALLSITE = {"get_components"}

Tag = Tuple[str, str, int]  # (region, invalidation kind '', 'comp', 'all', acquisition node id or -1)


def class_constants(cls: ast.ClassDef) -> Dict[str, Any]:
    out: Dict[str, Any] = {}
    for st in cls.body:
        if isinstance(st, ast.Assign) and len(st.targets) == 1:
            t, v = st.targets[0], st.value
            if isinstance(t, ast.Name) and isinstance(v, ast.Constant):
                out[t.id] = v.value
            elif isinstance(t, ast.Tuple) and isinstance(v, ast.Tuple) and len(t.elts) == len(v.elts):
                for a, b in zip(t.elts, v.elts):
                    if isinstance(a, ast.Name) and isinstance(b, ast.Constant):
                        out[a.id] = b.value
    return out


def kind_ge(a: str, b: str) -> bool:
    order = {"": 0, "comp": 1, "all": 2}
    return order[a] >= order[b]


def needed_kind(region: str) -> str:
    return "comp" if region in ("components", "index") else "all"


class Summary:
    def __init__(self):
        self.returns: Set[Tuple[str, str]] = set()      # (region, inv kind valid at return)
        self.dirty: List[Tuple[ast.AST, str, str]] = []  # (node, region, text) writes lacking invalidation
        self.inv_all_paths = ""                            # strongest kind on every normal path
        self.writes = 0
        self.escapes: List[str] = []
        self.param_returns: Set[str] = set()              # generic mode: parameters the result may alias
        self.param_writes: Set[str] = set()               # generic mode: parameters written through

    def sig(self):
        return (frozenset(self.returns), frozenset((r, t) for (_, r, t) in self.dirty), self.inv_all_paths,
                frozenset(self.param_returns), frozenset(self.param_writes))


# Frozen helper summaries (confirmed by reading) that the automatic helper analysis cannot derive because the
# helper works through closures / a work list.  They are *united* with what the analysis derives.
HELPER_OVERRIDES = {
    "FlowIR.override_object": {"returns": {"old", "new"}, "writes": {"old", "new"}},
}


class Analysis:
    def __init__(self, ctx):
        self.ctx = ctx
        self.mod = ctx.repo.module(FLOWIR)
        self.cls = self.mod.cls("FlowIRConcrete")
        self.cache_cls = self.mod.cls("FlowIRCache")
        self.flowir_cls = self.mod.cls("FlowIR")
        self.consts = class_constants(self.flowir_cls)
        ctx.require(isinstance(self.consts.get("FieldComponents"), str), "cannot read FlowIR.Field* constants")
        self.methods: Dict[str, ast.FunctionDef] = {}
        for st in self.cls.body:
            if isinstance(st, (ast.FunctionDef, ast.AsyncFunctionDef)):
                self.methods.setdefault(st.name, st)
        self.helpers: Dict[str, ast.FunctionDef] = {}
        for st in self.flowir_cls.body:
            if isinstance(st, (ast.FunctionDef, ast.AsyncFunctionDef)):
                self.helpers.setdefault("FlowIR." + st.name, st)
        for st in self.mod.tree.body:
            if isinstance(st, (ast.FunctionDef, ast.AsyncFunctionDef)):
                self.helpers.setdefault(st.name, st)
        self.helpers["FlowIRConcrete"] = self.methods.get("__init__")  # constructor
        self.cfgs: Dict[int, CFG] = {}
        self.memo: Dict[Tuple, Summary] = {}
        self.seeds: Dict[Tuple, Summary] = {}
        self.in_progress: Set[Tuple] = set()
        self.fillers = self._compute_fillers()
        self.relevant = set(BASE_RELEVANT)
        self.emitted: Dict[Tuple, Tuple] = {}
        self.unresolved_calls = 0
        self.resolved_calls = 0

    # -- helpers -------------------------------------------------------------------------
    def cfg_of(self, fn: ast.FunctionDef) -> CFG:
        c = self.cfgs.get(id(fn))
        if c is None:
            c = CFG(fn)
            self.cfgs[id(fn)] = c
            self.ctx.analysed(fn)
            self.ctx.paths += c.paths_count()
        return c

    def field(self, key: ast.AST) -> Optional[str]:
        if isinstance(key, ast.Constant) and isinstance(key.value, str):
            return key.value
        d = dotted(key)
        if d and (d.startswith("FlowIR.") or d.startswith("cls.")) and d.split(".")[-1] in self.consts:
            v = self.consts[d.split(".")[-1]]
            return v if isinstance(v, str) else None
        return None

    @staticmethod
    def is_self_attr(e: ast.AST, attr: str) -> bool:
        return isinstance(e, ast.Attribute) and e.attr == attr and isinstance(e.value, ast.Name) \
            and e.value.id == "self"

    def _direct_cache_store(self, fn: ast.AST) -> bool:
        for n in source.walk_own(fn):
            if isinstance(n, (ast.Assign, ast.AugAssign)):
                tg = n.targets if isinstance(n, ast.Assign) else [n.target]
                for t in tg:
                    if isinstance(t, ast.Subscript) and self.is_self_attr(t.value, "_cache"):
                        return True
            if isinstance(n, ast.Call) and call_name(n) in ("self._cache.set", "self._cache.__setitem__"):
                return True
        return False

    def _compute_fillers(self) -> Set[str]:
        fill = {m for m, f in self.methods.items() if self._direct_cache_store(f)}
        changed = True
        while changed:
            changed = False
            for m, f in self.methods.items():
                if m in fill:
                    continue
                hit = False
                for c in source.calls_in(f):
                    cn = call_name(c) or ""
                    if cn.startswith("self.") and cn[5:] in fill:
                        hit = True
                        break
                if not hit:
                    for n in source.walk_own(f):
                        if isinstance(n, ast.Attribute) and isinstance(n.value, ast.Name) and n.value.id == "self" \
                                and n.attr in fill and self._is_property(n.attr):
                            hit = True
                            break
                if hit:
                    fill.add(m)
                    changed = True
        return fill

    def _is_property(self, name: str) -> bool:
        f = self.methods.get(name)
        return bool(f) and any(isinstance(d, ast.Name) and d.id == "property" for d in f.decorator_list)

    def is_relevant(self, region: str) -> bool:
        return region in self.relevant or region in ("*", "index") or region.startswith("p:")

    # -- call environment ----------------------------------------------------------------
    @staticmethod
    def param_names(callee: ast.FunctionDef, skip_first: bool) -> List[str]:
        names = [a.arg for a in callee.args.posonlyargs + callee.args.args]
        if skip_first and names and names[0] in ("self", "cls"):
            names = names[1:]
        return names

    def bind_args(self, callee: ast.FunctionDef, call: ast.Call) -> Dict[str, ast.AST]:
        names = self.param_names(callee, True)
        out: Dict[str, ast.AST] = {}
        for i, a in enumerate(call.args):
            if isinstance(a, ast.Starred):
                break
            if i < len(names):
                out[names[i]] = a
        for kw in call.keywords:
            if kw.arg is not None:
                out[kw.arg] = kw.value
        return out

    def call_env(self, callee: ast.FunctionDef, call: ast.Call, env: Dict[str, Any]) -> Dict[str, Any]:
        all_names = [a.arg for a in callee.args.args]
        dmap: Dict[str, Any] = {}
        for p, d in zip(reversed(all_names), reversed(callee.args.defaults)):
            v = eval_const(d, {})
            if v is not UNKNOWN:
                dmap[p] = v
        bound = self.bind_args(callee, call)
        star = any(kw.arg is None for kw in call.keywords) or any(isinstance(a, ast.Starred) for a in call.args)
        out: Dict[str, Any] = {}
        for sp in SPEC_PARAMS:
            if sp not in all_names:
                continue
            val: Any = dmap.get(sp, UNKNOWN)
            if sp in bound:
                val = eval_const(bound[sp], env)
            elif star:
                val = UNKNOWN
            out[sp] = bool(val) if val is not UNKNOWN else UNKNOWN
        return out

    @staticmethod
    def _expand_env(cenv: Dict[str, Any]) -> List[Dict[str, Any]]:
        envs: List[Dict[str, Any]] = [{}]
        for k, v in cenv.items():
            if v is UNKNOWN:
                envs = [dict(e, **{k: b}) for e in envs for b in (True, False)]
            else:
                envs = [dict(e, **{k: v}) for e in envs]
        return envs

    def resolve_helper(self, call: ast.Call, in_flowir_class: bool) -> Optional[str]:
        cn = call_name(call)
        if cn is None:
            return None
        if cn in self.helpers and self.helpers[cn] is not None:
            return cn
        if cn.startswith("cls.") and in_flowir_class and ("FlowIR." + cn[4:]) in self.helpers:
            return "FlowIR." + cn[4:]
        if cn.startswith("experiment.model.frontends.flowir."):
            rest = cn[len("experiment.model.frontends.flowir."):]
            if rest in self.helpers and self.helpers[rest] is not None:
                return rest
        return None

    # -- abstract evaluation -------------------------------------------------------------
    def absval(self, e: Optional[ast.AST], st: Dict[str, FrozenSet[Tag]], fr: "Frame", node: Node) -> FrozenSet[Tag]:
        env = fr.env
        if e is None:
            return frozenset()
        if isinstance(e, ast.Name):
            return st.get(e.id, frozenset())
        if isinstance(e, ast.Attribute):
            if fr.concrete:
                if self.is_self_attr(e, "_flowir"):
                    return frozenset({("*", "", -1)})
                if self.is_self_attr(e, "_component_dictionary"):
                    return frozenset({("index", "", -1)})
            return frozenset()
        if isinstance(e, ast.Subscript):
            if fr.concrete and self.is_self_attr(e.value, "_flowir"):
                f = self.field(e.slice)
                return frozenset({(f or "*", "", -1)})
            base = self.absval(e.value, st, fr, node)
            return frozenset((("components" if r == "index" else r), k, a) for (r, k, a) in base)
        if isinstance(e, ast.Call):
            cn = call_name(e) or ""
            if cn in COPY_CALLS or cn in PURE_BUILTINS:
                return frozenset()
            if cn.startswith("experiment.model.errors."):
                return frozenset()
            if cn == "cast" and len(e.args) == 2:
                return self.absval(e.args[1], st, fr, node)
            if isinstance(e.func, ast.Attribute):
                recv = e.func.value
                meth = e.func.attr
                if fr.concrete and isinstance(recv, ast.Name) and recv.id == "self" and meth in self.methods:
                    self.resolved_calls += 1
                    cenv = self.call_env(self.methods[meth], e, env)
                    out: Set[Tag] = set()
                    for ce in self._expand_env(cenv):
                        s = self.summary(("m", meth), ce)
                        for (r, k) in s.returns:
                            out.add((r, k, node.id))
                    return frozenset(out)
            h = self.resolve_helper(e, fr.in_flowir_class)
            if h is not None:
                self.resolved_calls += 1
                hs = self.summary(("h", h), {})
                bound = self.bind_args(self.helpers[h], e)
                o: FrozenSet[Tag] = frozenset()
                for p in hs.param_returns:
                    if p in bound:
                        o |= self.absval(bound[p], st, fr, node)
                return o
            if isinstance(e.func, ast.Attribute):
                recv = e.func.value
                meth = e.func.attr
                rt = self.absval(recv, st, fr, node)
                if meth in ("keys", "count", "index", "__len__", "__contains__", "lower", "upper", "split",
                            "startswith", "endswith", "format", "join", "strip"):
                    return frozenset()
                if fr.concrete and meth == "get" and self.is_self_attr(recv, "_flowir") and e.args:
                    f = self.field(e.args[0])
                    extra = self.absval(e.args[1], st, fr, node) if len(e.args) > 1 else frozenset()
                    return frozenset({(f or "*", "", -1)}) | extra
                if rt:
                    extra = frozenset()
                    for a in e.args:
                        extra |= self.absval(a, st, fr, node)
                    return frozenset((("components" if r == "index" else r), k, a) for (r, k, a) in rt) | extra
            # unknown function: the result may alias any argument
            self.unresolved_calls += 1
            out2: FrozenSet[Tag] = frozenset()
            for a in list(e.args) + [k.value for k in e.keywords]:
                out2 |= self.absval(a, st, fr, node)
            return out2
        if isinstance(e, (ast.List, ast.Tuple, ast.Set)):
            o2: FrozenSet[Tag] = frozenset()
            for x in e.elts:
                o2 |= self.absval(x, st, fr, node)
            return o2
        if isinstance(e, ast.Dict):
            o2 = frozenset()
            for x in e.values:
                o2 |= self.absval(x, st, fr, node)
            return o2
        if isinstance(e, ast.IfExp):
            return self.absval(e.body, st, fr, node) | self.absval(e.orelse, st, fr, node)
        if isinstance(e, ast.BoolOp):
            o2 = frozenset()
            for x in e.values:
                o2 |= self.absval(x, st, fr, node)
            return o2
        if isinstance(e, ast.Starred):
            return self.absval(e.value, st, fr, node)
        if isinstance(e, (ast.ListComp, ast.SetComp, ast.GeneratorExp, ast.DictComp)):
            st2 = dict(st)
            for g in e.generators:
                tags = self.absval(g.iter, st2, fr, node)
                for nm in ast.walk(g.target):
                    if isinstance(nm, ast.Name):
                        st2[nm.id] = tags
            elt = e.value if isinstance(e, ast.DictComp) else e.elt
            return self.absval(elt, st2, fr, node)
        if isinstance(e, ast.NamedExpr):
            return self.absval(e.value, st, fr, node)
        return frozenset()

    # -- invalidation recognition ------------------------------------------------------------
    def inv_kind_of_node(self, n: Node, fr: "Frame") -> str:
        if not fr.concrete or n.ast is None or n.kind not in ("stmt", "test", "for", "with"):
            return ""
        best = ""
        if isinstance(n.ast, ast.Delete):
            for t in n.ast.targets:
                if isinstance(t, ast.Subscript) and self.is_self_attr(t.value, "_cache"):
                    best = "comp"
        for c in own_calls(n.ast):
            cn = call_name(c) or ""
            k = ""
            if cn == "self._cache.clear":
                k = "all"
            elif cn in ("self._cache.invalidate_reg_expression", "self._cache.invalidate_reference",
                        "self._cache.invalidate_selector", "self._cache.pop", "self._cache.__delitem__"):
                k = "comp"
            elif cn.startswith("self.") and cn[5:] in self.methods:
                meth = cn[5:]
                cenv = self.call_env(self.methods[meth], c, fr.env)
                kinds = [self.summary(("m", meth), ce).inv_all_paths for ce in self._expand_env(cenv)]
                k = min(kinds, key=lambda x: {"": 0, "comp": 1, "all": 2}[x]) if kinds else ""
            if kind_ge(k, best):
                best = k
        return best

    def is_filler_node(self, n: Node, fr: "Frame") -> bool:
        if not fr.concrete or n.ast is None:
            return False
        for c in own_calls(n.ast):
            cn = call_name(c) or ""
            if cn.startswith("self.") and cn[5:] in self.fillers:
                return True
        for e in own_exprs(n.ast):
            for a in ast.walk(e):
                if isinstance(a, ast.Attribute) and isinstance(a.value, ast.Name) and a.value.id == "self" \
                        and a.attr in self.fillers and self._is_property(a.attr):
                    return True
        return False

    # -- per-function summary ----------------------------------------------------------------
    def summary(self, key: Tuple[str, str], env: Dict[str, Any]) -> Summary:
        k = (key, tuple(sorted(env.items())))
        if k in self.memo:
            return self.memo[k]
        if k in self.in_progress:
            return self.seeds.get(k, Summary())
        self.in_progress.add(k)
        try:
            s = self._analyse(key, env)
        finally:
            self.in_progress.discard(k)
        self.memo[k] = s
        return s

    def solve_all(self, roots: List[Tuple[Tuple[str, str], Dict[str, Any]]]) -> int:
        """Iterate the summaries to a fixpoint (recursive helpers start from optimistic seeds)."""
        rounds = 0
        while True:
            rounds += 1
            self.memo = {}
            self.emitted = {}
            for key, env in roots:
                self.summary(key, env)
            stable = all(k in self.seeds and self.seeds[k].sig() == s.sig() for k, s in self.memo.items())
            self.seeds = dict(self.memo)
            if stable or rounds >= 6:
                return rounds

    def _analyse(self, key: Tuple[str, str], env: Dict[str, Any]) -> Summary:
        mode, name = key
        concrete = mode == "m"
        fn = self.methods[name] if concrete else self.helpers[name]
        cfg = self.cfg_of(fn)
        blocked = specialise(cfg, env)
        fr = Frame(env, concrete, in_flowir_class=(not concrete and name.startswith("FlowIR.")))
        s = Summary()
        init: Dict[str, FrozenSet[Tag]] = {}
        if not concrete:
            for p in self.param_names(fn, True):
                init[p] = frozenset({("p:" + p, "", -1)})
            if fn.args.vararg:
                init[fn.args.vararg.arg] = frozenset({("p:*" + fn.args.vararg.arg, "", -1)})
            for a in fn.args.kwonlyargs:
                init[a.arg] = frozenset({("p:" + a.arg, "", -1)})
        is_ctor = (not concrete) and name == "FlowIRConcrete"

        def transfer(n: Node, st: Dict[str, FrozenSet[Tag]]) -> Dict[str, FrozenSet[Tag]]:
            a = n.ast
            if a is None:
                return st
            out = st

            def bind(target: ast.AST, tags: FrozenSet[Tag]):
                nonlocal out
                if isinstance(target, ast.Name):
                    if out is st:
                        out = dict(st)
                    out[target.id] = tags
                elif isinstance(target, (ast.Tuple, ast.List)):
                    for t in target.elts:
                        bind(t, tags)
                elif isinstance(target, ast.Starred):
                    bind(target.value, tags)

            if n.kind == "stmt":
                if isinstance(a, ast.Assign):
                    tags = self.absval(a.value, st, fr, n)
                    for t in a.targets:
                        bind(t, tags)
                elif isinstance(a, ast.AnnAssign) and a.value is not None:
                    bind(a.target, self.absval(a.value, st, fr, n))
                elif isinstance(a, ast.AugAssign) and isinstance(a.target, ast.Name):
                    bind(a.target, st.get(a.target.id, frozenset()) | self.absval(a.value, st, fr, n))
                elif isinstance(a, ast.Expr) and isinstance(a.value, ast.Call) \
                        and isinstance(a.value.func, ast.Attribute) and isinstance(a.value.func.value, ast.Name) \
                        and a.value.func.attr in ("append", "extend", "insert", "update"):
                    # weak update: a local container that receives an alias now contains it
                    # (set.add is excluded on purpose: set elements are hashable, hence not mutable containers)
                    nm = a.value.func.value.id
                    add = frozenset()
                    for arg in a.value.args:
                        add |= self.absval(arg, st, fr, n)
                    if add:
                        if out is st:
                            out = dict(st)
                        out[nm] = st.get(nm, frozenset()) | add
            elif n.kind == "for":
                bind(a.target, self.absval(a.iter, st, fr, n))
            elif n.kind == "with":
                for it in a.items:
                    if it.optional_vars is not None:
                        bind(it.optional_vars, self.absval(it.context_expr, st, fr, n))
            return out

        def join(x, y):
            if x is y:
                return x
            out = dict(x)
            for k2, v in y.items():
                out[k2] = out.get(k2, frozenset()) | v
            return out

        IN = forward(cfg, init, transfer, join, blocked_edges=blocked)
        reachable = set(IN)
        inv_nodes: Dict[str, List[Node]] = {"comp": [], "all": []}
        for n in cfg.nodes:
            if n.id not in reachable:
                continue
            k = self.inv_kind_of_node(n, fr)
            if k == "all":
                inv_nodes["all"].append(n)
                inv_nodes["comp"].append(n)
            elif k == "comp":
                inv_nodes["comp"].append(n)
        filler_nodes = [n for n in cfg.nodes if n.id in reachable and self.is_filler_node(n, fr)]

        def reach(starts, blocked_nodes=()):
            return cfg.reach(starts, blocked=blocked_nodes, blocked_edges=blocked, include_starts=False,
                             ignore_labels=("exc",))

        def tag_inv_ok(tag: Tag, use: Node, need: str) -> bool:
            region, kind, acq = tag
            if not kind or not kind_ge(kind, need) or acq < 0:
                return False
            acqn = cfg.nodes[acq]
            after_acq = reach([acqn])
            for f in filler_nodes:
                if f.id in after_acq and (f is use or use.id in reach([f])):
                    return False
            return True

        for k in ("all", "comp"):
            if inv_nodes[k]:
                r = cfg.reach([cfg.entry], blocked=inv_nodes[k], blocked_edges=blocked, ignore_labels=("exc",))
                if cfg.exit.id not in r:
                    s.inv_all_paths = k
                    break

        def record_write(n: Node, tags: FrozenSet[Tag], what: ast.AST, region_override: Optional[str] = None):
            for tag in sorted(tags):
                region = region_override or tag[0]
                if not self.is_relevant(region):
                    continue
                if region.startswith("p:"):
                    s.param_writes.add(region[2:])
                    continue
                if not concrete:
                    continue
                s.writes += 1
                need = needed_kind(region)
                r = cfg.reach([n], blocked=inv_nodes[need], blocked_edges=blocked, include_starts=False,
                              ignore_labels=("exc",))
                after = cfg.exit.id not in r
                ok = after or tag_inv_ok(tag, n, need) or (n in inv_nodes[need])
                if not ok:
                    s.dirty.append((what, region, short(what, 160)))
                self._emit_write(name, env, what, region, need, ok)

        for n in cfg.nodes:
            if n.id not in reachable or n.ast is None:
                continue
            st = IN[n.id]
            a = n.ast
            if n.kind == "stmt":
                targets: List[ast.AST] = []
                if isinstance(a, ast.Assign):
                    targets = list(a.targets)
                elif isinstance(a, (ast.AugAssign, ast.AnnAssign)):
                    targets = [a.target]
                elif isinstance(a, ast.Delete):
                    targets = list(a.targets)
                flat: List[ast.AST] = []
                for t in targets:
                    if isinstance(t, (ast.Tuple, ast.List)):
                        flat.extend(t.elts)
                    else:
                        flat.append(t)
                for t in flat:
                    if isinstance(t, ast.Subscript):
                        if concrete and self.is_self_attr(t.value, "_flowir"):
                            f = self.field(t.slice) or "*"
                            record_write(n, frozenset({(f, "", -1)}), a, f)
                        else:
                            base = self.absval(t.value, st, fr, n)
                            if base:
                                record_write(n, base, a)
                    elif isinstance(t, ast.Attribute) and isinstance(t.value, ast.Name) and t.value.id == "self":
                        if concrete and t.attr in ("_flowir", "_component_dictionary") and name != "__init__":
                            record_write(n, frozenset({("*", "", -1)}), a, "*")
                        if is_ctor and isinstance(a, ast.Assign):
                            for tag in self.absval(a.value, st, fr, n):
                                if tag[0].startswith("p:"):
                                    s.param_returns.add(tag[0][2:])
            for c in own_calls(a):
                handled = False
                if isinstance(c.func, ast.Attribute):
                    recv, meth = c.func.value, c.func.attr
                    if concrete and isinstance(recv, ast.Name) and recv.id == "self" and meth in self.methods:
                        cenv = self.call_env(self.methods[meth], c, env)
                        for ce in self._expand_env(cenv):
                            cs = self.summary(("m", meth), ce)
                            for (w, region, text) in cs.dirty:
                                if (meth, region) in EXEMPT_WRITES:
                                    continue
                                record_write(n, frozenset({(region, "", -1)}), c, region)
                        continue
                h = self.resolve_helper(c, fr.in_flowir_class)
                if h is not None:
                    hs = self.summary(("h", h), {})
                    bound = self.bind_args(self.helpers[h], c)
                    for p in hs.param_writes:
                        if p in bound:
                            tg = self.absval(bound[p], st, fr, n)
                            if tg:
                                record_write(n, tg, c)
                    continue
                if isinstance(c.func, ast.Attribute) and c.func.attr in MUTATORS:
                    base = self.absval(c.func.value, st, fr, n)
                    if base:
                        record_write(n, base, c)
                    continue
                cn = call_name(c) or "?"
                if cn in COPY_CALLS or cn in PURE_BUILTINS or cn == "cast" or cn.startswith("experiment.model.errors."):
                    continue
                if concrete:
                    for arg in list(c.args) + [k2.value for k2 in c.keywords]:
                        tg = self.absval(arg, st, fr, n)
                        tg = frozenset(t for t in tg if self.is_relevant(t[0]))
                        if tg and not (isinstance(c.func, ast.Attribute) and c.func.attr in (
                                "add", "get", "items", "values", "keys", "format", "join", "log", "info", "debug",
                                "warning", "critical", "error", "isEnabledFor")) and cn not in (
                                "enumerate", "list", "dict", "tuple", "zip", "map", "filter", "iter", "next", "reversed"):
                            s.escapes.append("%s:%d %s passes an alias of %s to %s" % (
                                self.mod.rel, c.lineno, name, sorted({t[0] for t in tg}), cn))
            if n.kind == "stmt" and isinstance(a, ast.Return) and a.value is not None:
                tags = self.absval(a.value, st, fr, n)
                for tag in tags:
                    region = tag[0]
                    if not self.is_relevant(region):
                        continue
                    if region.startswith("p:"):
                        s.param_returns.add(region[2:])
                        continue
                    if not concrete:
                        continue
                    need = needed_kind(region)
                    kind = ""
                    for k in ("all", "comp"):
                        if inv_nodes[k] and cfg.every_path_to_passes(
                                n, gates=inv_nodes[k], gate_edges=blocked, ignore_labels=("exc",)):
                            bad = False
                            for f in filler_nodes:
                                if n.id in reach([f]) and any(f.id in reach([i]) for i in inv_nodes[k]):
                                    bad = True
                            if not bad:
                                kind = k
                                break
                    if not kind and tag[1] and tag_inv_ok(tag, n, "comp"):
                        kind = tag[1]
                    s.returns.add((region, kind))
                    self._emit_return(name, env, a, region, need, kind)
        ov = HELPER_OVERRIDES.get(name) if not concrete else None
        if ov:
            s.param_returns |= set(ov["returns"])
            s.param_writes |= set(ov["writes"])
        return s

    # -- obligations (emitted once per site; the last fixpoint round wins) ------------------------
    def _emit_write(self, name, env, what, region, need, ok):
        key = ("W", name, getattr(what, "lineno", 0), getattr(what, "col_offset", 0), region, tuple(sorted(env.items())))
        self.emitted[key] = ("W", name, dict(env), what, region, need, ok)

    def _emit_return(self, name, env, a, region, need, kind):
        key = ("R", name, a.lineno, region, tuple(sorted(env.items())))
        self.emitted[key] = ("R", name, dict(env), a, region, need, kind)

    def flush(self) -> None:
        for key in sorted(self.emitted, key=lambda k: (k[1], k[2], str(k))):
            rec = self.emitted[key]
            if rec[0] == "W":
                _, name, env, what, region, need, ok = rec
                spec = ",".join("%s=%s" % kv for kv in sorted(env.items()))
                exempt = EXEMPT_WRITES.get((name, region))
                if exempt and not ok:
                    self.ctx.ob("C08.R1-write-invalidate", what, True,
                                "write to region '%s' in %s(%s) without invalidation: frozen exemption - %s"
                                % (region, name, spec, exempt),
                                construct="%s [%s]" % (short(what, 160), spec))
                    continue
                self.ctx.ob("C08.R1-write-invalidate", what, ok,
                            ("write to region '%s' in FlowIRConcrete.%s(%s) is followed on every path by a cache "
                             "invalidation of kind >= %s, or goes through an alias obtained from an invalidating "
                             "accessor" % (region, name, spec, need)) if ok else
                            ("write to region '%s' in FlowIRConcrete.%s(%s) can reach the normal exit without a "
                             "cache invalidation of kind >= %s and the alias was not obtained from an invalidating "
                             "accessor: a later get_component_configuration returns the stale cached entry"
                             % (region, name, spec, need)),
                            construct="%s [%s]" % (short(what, 160), spec))
            else:
                _, name, env, a, region, need, kind = rec
                spec = ",".join("%s=%s" % kv for kv in sorted(env.items()))
                if name.startswith("_"):
                    continue
                ok = kind_ge(kind, need)
                cons = "%s [%s]" % (short(a, 160), spec)
                if not ok and name in ALIAS_HANDOUT_BY_CALLSITE:
                    self.ctx.ob("C08.R2-alias-handout", a, True,
                                "FlowIRConcrete.%s(%s) hands out an alias of '%s' without invalidating: allowed only "
                                "through the call-site rule R2b" % (name, spec, region), construct=cons)
                    continue
                self.ctx.ob("C08.R2-alias-handout", a, ok,
                            ("FlowIRConcrete.%s(%s) returns an alias into region '%s' after invalidating (%s)"
                             % (name, spec, region, kind)) if ok else
                            ("FlowIRConcrete.%s(%s) returns an alias into region '%s' without a preceding cache "
                             "invalidation of kind >= %s: the caller can change the description behind the cache"
                             % (name, spec, region, need)), construct=cons)


class Frame:
    def __init__(self, env: Dict[str, Any], concrete: bool, in_flowir_class: bool):
        self.env = env
        self.concrete = concrete
        self.in_flowir_class = in_flowir_class


def run(ctx) -> None:
    ctx.explanation = (
        "Effect/ownership analysis of FlowIRConcrete: flow-sensitive may-alias analysis (per CFG, specialised on "
        "the boolean parameter return_copy) finds every write into the configuration-relevant regions of "
        "self._flowir / self._component_dictionary, directly, through local aliases, or through callees; each "
        "write must be followed on every path by a cache invalidation or go through an alias handed out by an "
        "invalidating accessor with no cache-filling call in between.  Plus: alias hand-out, privacy of cache "
        "values, cache-key coverage, invalidation pattern/label agreement, and external writers.")
    ctx.rule("C08.R1-write-invalidate", "every write to a configuration region of FlowIRConcrete invalidates the cache")
    ctx.rule("C08.R2-alias-handout", "a method returning an alias into a configuration region invalidates first")
    ctx.rule("C08.R2b-callsite", "callers of get_components(return_copy=False) that write through the result invalidate")
    ctx.rule("C08.R3-private-values", "cache values never alias returned or stored objects")
    ctx.rule("C08.R4-key", "the cache key covers platform and component id; other parameters are pinned by the guard")
    ctx.rule("C08.R7-cached-is-returned", "what get_component_configuration stores in the cache is the value it returns: on no path between "
             "the store and the return is the result rebound, written into or passed to a mutator")
    ctx.rule("C08.R4b-pattern", "invalidation patterns agree with the cache label format")
    ctx.rule("C08.R5-external", "no code outside flowir.py writes FlowIRConcrete's storage or cache directly")
    ctx.rule("C08.R14-stored-components-are-private", "a component definition that enters the description (the constructor's per-component pipeline, "
             "add_component with insert_copy, update_component) is a deep copy of what the caller handed in: a shallow copy keeps the nested "
             "sections shared with the caller's object and with sibling components built from it, and an update of one sibling through the "
             "interface then changes the other behind its cache entries")
    ctx.rule("C08.R13-index-and-description-share-objects", "an object stored into the component lookup index is also put into the description by the same function")
    ctx.rule("C08.R10-clear-then-fill-cannot-fail-in-between", "a mutator that empties a stored object and refills it from a caller's argument "
             "(X.clear(); X.update(arg)) either invalidates before the clear or has converted the argument (dict(..), deep_copy(..)) before "
             "it: if the refill raises, the description is already changed and the invalidation that follows it is never reached")
    ctx.rule("C08.R11-new-platform-has-every-scope", "a mutator that creates the variables of a platform (variables[platform] = {..}) leaves it with "
             "both scopes the readers require ('global' and 'stages'): otherwise every resolved query on the new platform raises "
             "FlowIRInconsistency while the same description answers when it is loaded from scratch")
    ctx.rule("C08.R12-no-untracked-memo", "self._cache is the only store of values derived from the description: an instance attribute of FlowIRConcrete "
             "that a method other than __init__ fills from the description is rebound by every method that writes into self._flowir / "
             "self._component_dictionary")
    ctx.rule("C08.R6-readset", "regions read by get_component_configuration are exactly the regions treated as relevant")
    ctx.assume("aliases stored outside the analysed function (object attributes, containers passed to other "
               "modules) are not tracked; such escapes are listed under coverage.information")
    ctx.assume("platform existence (FlowIR.discover_platforms over the whole document) only gates "
               "FlowIRPlatformUnknown and is not treated as configuration content")
    ctx.assume("component names contain no regular-expression metacharacters that would stop "
               "invalidate_reg_expression from matching its own label")

    an = Analysis(ctx)
    mod = an.mod

    # ---- R11: scopes of a newly created platform ---------------------------------------------
    n11 = 0
    for mname, f in an.methods.items():
        creates = [a for a in ast.walk(f) if isinstance(a, ast.Assign) and len(a.targets) == 1 and isinstance(a.targets[0], ast.Subscript)
                   and isinstance(a.targets[0].slice, ast.Name) and a.targets[0].slice.id == "platform" and "FieldVariables" in source.src(a.targets[0].value)
                   and isinstance(a.value, ast.Dict)]
        if not creates:
            continue
        n11 += 1
        ctx.analysed(f)
        established = set()
        for x in ast.walk(f):
            if isinstance(x, ast.Dict):
                established |= {(dotted(k) or "").split(".")[-1] for k in x.keys if k is not None}
            if isinstance(x, ast.Assign):
                for t in x.targets:
                    if isinstance(t, ast.Subscript) and "FieldVariables" in source.src(t):
                        established.add((dotted(t.slice) or "").split(".")[-1])
        missing = [k for k in ("LabelGlobal", "LabelStages") if k not in established]
        ctx.ob("C08.R11-new-platform-has-every-scope", creates[0], not missing,
               "%s creates the variables of a platform with the global and the stages scope" % mname if not missing else
               "%s creates variables[platform] without %s: get_platform_stage_variables treats a platform without the 'stages' scope as an "
               "inconsistency, so after this update every resolved query on the new platform raises although a fresh load of the same "
               "description answers" % (mname, " and ".join(missing)), construct="%s: variables[platform] created with both scopes" % mname)
    ctx.floor("C08.R11-new-platform-has-every-scope", n11, 2, "mutators that create the variables of a platform")

    # ---- R12: no second, untracked memo ------------------------------------------------------------
    # The cache analysis above knows ONE derived store, self._cache.  Any other attribute of FlowIRConcrete that a method other than
    # __init__ fills with a value computed from the description (self._flowir, a method or property of self) is a second memo; it is
    # sound only if every method that writes into self._flowir also rebinds it.
    def rooted_at_flowir(e: ast.AST) -> bool:
        while isinstance(e, (ast.Subscript, ast.Attribute, ast.Call)):
            if isinstance(e, ast.Attribute) and isinstance(e.value, ast.Name) and e.value.id == "self" and e.attr in ("_flowir", "_component_dictionary"):
                return True
            e = e.func if isinstance(e, ast.Call) else e.value
        return False
    MUTATORS = ("update", "pop", "append", "clear", "setdefault", "remove", "insert", "extend", "popitem")
    writers = {}
    for mname, f in an.methods.items():
        for x in ast.walk(f):
            tgts = x.targets if isinstance(x, (ast.Assign, ast.Delete)) else [x.target] if isinstance(x, ast.AugAssign) else []
            if any(isinstance(t, ast.Subscript) and rooted_at_flowir(t) for t in tgts) or (
                    isinstance(x, ast.Call) and last_attr(x) in MUTATORS and rooted_at_flowir(x.func.value)):
                writers[mname] = f
                break
    attr_sites = {}
    for mname, f in an.methods.items():
        for x in ast.walk(f):
            if isinstance(x, (ast.Assign, ast.AugAssign)):
                for t in (x.targets if isinstance(x, ast.Assign) else [x.target]):
                    if isinstance(t, ast.Attribute) and isinstance(t.value, ast.Name) and t.value.id == "self":
                        attr_sites.setdefault(t.attr, []).append((mname, x))
    ctx.floor("C08.R12-no-untracked-memo", len(attr_sites), 4, "instance attributes of FlowIRConcrete")
    ctx.floor("C08.R12-no-untracked-memo", len(writers), 10, "methods of FlowIRConcrete that write into the description")
    for attr, sites in sorted(attr_sites.items()):
        derived = [(mn, x) for (mn, x) in sites if mn != "__init__" and x.value is not None and any(
            (isinstance(y, ast.Attribute) and isinstance(y.value, ast.Name) and y.value.id == "self" and y.attr != attr)
            or (isinstance(y, ast.Call) and "_flowir" in source.src(y)) for y in ast.walk(x.value))]
        if not derived:
            ctx.ob("C08.R12-no-untracked-memo", sites[0][1], True, "self.%s is bound in __init__ or from arguments only" % attr, trivial=True,
                   construct="self.%s" % attr)
            continue
        resetting = {mn for (mn, x) in sites}
        # top-level fields the memo is computed from (read from the function that computes it) and fields each writer touches:
        # a writer matters when it writes a field the memo reads (or when either side cannot be determined)
        memo_fields: Optional[Set[str]] = set()
        for (mn, x) in derived:
            for c in [y for y in ast.walk(x.value) if isinstance(y, ast.Call)]:
                callee = None
                nm_ = last_attr(c) or (c.func.id if isinstance(c.func, ast.Name) else None)
                for q_, f_ in an.mod.functions.items():
                    if q_.split(".")[-1] == nm_ and q_.split(".")[0] in ("FlowIR", "FlowIRConcrete"):
                        callee = f_
                if callee is None:
                    memo_fields = None
                    break
                got = {y.attr for y in ast.walk(callee) if isinstance(y, ast.Attribute) and y.attr.startswith("Field")}
                if not got:
                    memo_fields = None
                    break
                memo_fields |= got
            if memo_fields is None:
                break

        def writer_fields(f) -> Optional[Set[str]]:
            out: Set[str] = set()
            for x in ast.walk(f):
                tgts = x.targets if isinstance(x, (ast.Assign, ast.Delete)) else [x.target] if isinstance(x, ast.AugAssign) else []
                exprs = [t for t in tgts if isinstance(t, ast.Subscript) and rooted_at_flowir(t)]
                if isinstance(x, ast.Call) and last_attr(x) in MUTATORS and rooted_at_flowir(x.func.value):
                    exprs.append(x.func.value)
                for e in exprs:
                    chain = e
                    first = None
                    while isinstance(chain, (ast.Subscript, ast.Attribute, ast.Call)):
                        if isinstance(chain, ast.Subscript) and isinstance(chain.value, ast.Attribute) and isinstance(chain.value.value, ast.Name) \
                                and chain.value.value.id == "self" and chain.value.attr == "_flowir":
                            first = chain.slice
                        chain = chain.func if isinstance(chain, ast.Call) else chain.value
                    if isinstance(first, ast.Attribute) and first.attr.startswith("Field"):
                        out.add(first.attr)
                    elif "_component_dictionary" in source.src(e) and "_flowir" not in source.src(e):
                        out.add("FieldComponents")        # the index of the components
                    else:
                        return None
            return out
        stale = []
        for w in sorted(writers):
            if w in resetting or w == "__init__":
                continue
            wf = writer_fields(writers[w])
            if memo_fields is None or wf is None or (wf & memo_fields):
                stale.append(w)
        ctx.ob("C08.R12-no-untracked-memo", derived[0][1], not stale,
               "self.%s is derived from the description and rebound by every method that writes into it" % attr if not stale else
               "self.%s is filled in %s from the description (a second memo next to self._cache) but is not reset by %s, which write into the "
               "description: after such a write the live object keeps answering from the old value (e.g. 'unknown platform' for a platform "
               "that set_platform_stage_variable just created) while an object built from scratch from the same description answers"
               % (attr, derived[0][0], ", ".join(stale[:6]) + (" .." if len(stale) > 6 else "")),
               construct="self.%s <- reset by every writer of the description" % attr)

    # ---- R10: clear-then-fill ------------------------------------------------------------
    n10 = 0
    for mname, f in an.methods.items():
        params = {a.arg for a in f.args.args} - {"self"}
        body = [st for st in ast.walk(f) if isinstance(st, ast.Expr) and isinstance(st.value, ast.Call)]
        clears = [st for st in body if last_attr(st.value) == "clear" and isinstance(st.value.func.value, ast.Name)]
        for cl in clears:
            obj = cl.value.func.value.id
            fills = [st for st in body if last_attr(st.value) == "update" and isinstance(st.value.func.value, ast.Name)
                     and st.value.func.value.id == obj and st.lineno > cl.lineno and st.value.args]
            for fl in fills:
                arg = fl.value.args[0]
                n10 += 1
                ctx.analysed(f)
                raw_param = isinstance(arg, ast.Name) and arg.id in params
                converted = isinstance(arg, ast.Name) and not raw_param and any(
                    isinstance(v, ast.Call) and (call_name(v) or "").split(".")[-1] in ("dict", "deep_copy", "deepcopy", "copy")
                    for v in match.assigned_value(f, arg.id)) and all(
                    a_.lineno < cl.lineno for a_ in ast.walk(f) if isinstance(a_, ast.Assign) and any(isinstance(t, ast.Name) and t.id == arg.id for t in a_.targets))
                inv_before = any(isinstance(st.value, ast.Call) and "invalidate" in (last_attr(st.value) or "") and st.lineno < cl.lineno for st in body)
                ok = converted or inv_before
                ctx.ob("C08.R10-clear-then-fill-cannot-fail-in-between", fl.value, ok,
                       "%s: the replacement is converted before the stored object is emptied (or the cache is invalidated first)" % mname if ok else
                       "%s empties the stored object and then refills it with %s.update(%s) straight from the caller's argument: "
                       "update_component(id, None) raises TypeError after the clear, the description holds an empty component and the "
                       "cache - invalidated only after the refill - keeps answering with the old configuration" % (mname, obj, short(arg, 30)),
                       construct="%s: %s.clear(); %s.update(%s)" % (mname, obj, obj, short(arg, 30)))
    ctx.ob("C08.R10-clear-then-fill-cannot-fail-in-between", an.cls, True, "%d clear-then-update sequences in FlowIRConcrete mutators inspected" % n10,
           construct="clear-then-update sequences of FlowIRConcrete", trivial=True)

    # ---- R13: the lookup index and the description hold the SAME component objects ----------
    # An attribute that some method fills with `self.A[key] = c` for the elements c of a list taken from the description is an index
    # into the description: queries go through it, everything that is computed from the description (raw(), copy(), serialisation,
    # a refresh of the index) goes through the list.  Every other store into the index must therefore store an object that the same
    # function also puts into a list of the description (append / insert) - an object that is only put into the index makes the two
    # disagree from then on (queries answer from the new definition, the description keeps the old one).
    def from_description(f_, e_, depth=0) -> bool:
        if any(isinstance(x, ast.Attribute) and isinstance(x.value, ast.Name) and x.value.id == "self" and x.attr == "_flowir" for x in ast.walk(e_)):
            return True
        if depth < 3:
            for x in ast.walk(e_):
                if isinstance(x, ast.Name):
                    for v in match.assigned_value(f_, x.id):
                        if from_description(f_, v, depth + 1):
                            return True
        return False

    def index_stores(f_):
        for st in source.walk_own(f_):
            if isinstance(st, ast.Assign):
                for t in st.targets:
                    if isinstance(t, ast.Subscript) and isinstance(t.value, ast.Attribute) and isinstance(t.value.value, ast.Name) \
                            and t.value.value.id == "self":
                        yield st, t.value.attr
    index_attrs = {}
    for mname, f in an.methods.items():
        for st, attr in index_stores(f):
            loop = next((x for x in source.ancestors(st) if isinstance(x, ast.For)), None)
            if loop is not None and isinstance(st.value, ast.Name) and st.value.id in {x.id for x in ast.walk(loop.target) if isinstance(x, ast.Name)} \
                    and from_description(f, loop.iter):
                index_attrs.setdefault(attr, []).append(mname)
    ctx.require(bool(index_attrs), "anchor missing: no method of FlowIRConcrete fills a lookup index from a list of the description")
    for mname, f in an.methods.items():
        for st, attr in index_stores(f):
            if attr not in index_attrs or mname in index_attrs[attr]:
                continue
            ctx.analysed(f)
            v = st.value
            listed = isinstance(v, ast.Name) and any(
                isinstance(c, ast.Call) and last_attr(c) in ("append", "insert") and c.args and isinstance(c.args[-1], ast.Name) and c.args[-1].id == v.id
                and from_description(f, c.func.value) for c in source.calls_in(f)) or isinstance(v, ast.Name) and any(
                isinstance(a_, ast.Assign) and isinstance(a_.value, ast.Name) and a_.value.id == v.id and any(
                    isinstance(t, ast.Subscript) and not (isinstance(t.value, ast.Attribute) and t.value.attr == attr) and from_description(f, t.value)
                    for t in a_.targets) for a_ in source.walk_own(f))
            ctx.ob("C08.R13-index-and-description-share-objects", st, listed,
                   "%s: the object stored into self.%s is put into the description by the same function" % (mname, attr) if listed else
                   "%s stores %s into the lookup index self.%s but not into the description (self._flowir): queries (which go through the index) "
                   "answer from the new object while raw(), copy(), serialisation and the next refresh of the index still see the old one - "
                   "after update_component((0,'a'), new) a copy of the object resolves stage0.a from the OLD definition, and later "
                   "set_component_variable calls widen the gap" % (mname, short(v, 30), attr),
                   construct="%s: self.%s[...] = <object also listed in the description>" % (mname, attr))

    # ---- R14: what enters the description is a private (deep) copy ------------------------------------
    DEEP = {"deep_copy", "deepcopy"}

    def private(cfg_: CFG, fn_: ast.AST, e_: ast.AST, at: int, blocked_, depth: int = 0) -> bool:
        """is the value of e_ at node `at` derived, on every reaching definition, from a deep copy?"""
        if depth > 8:
            return False
        if isinstance(e_, ast.Call) and (call_name(e_) or "").split(".")[-1] in DEEP:
            return True
        if isinstance(e_, (ast.Dict, ast.List, ast.Constant)):
            return not any(isinstance(x, ast.Name) for x in ast.walk(e_))
        names = [x for x in ast.walk(e_) if isinstance(x, ast.Name) and isinstance(x.ctx, ast.Load)
                 and not (isinstance(source.parent(x), ast.Call) and source.parent(x).func is x)
                 and not (isinstance(source.parent(x), ast.Attribute))]
        if isinstance(e_, ast.Name):
            names = [e_]
        if not names:
            return False
        for nm in names:
            rd = flow.reaching_defs(cfg_, nm.id, blocked_edges=blocked_)
            defs = rd.get(at, frozenset())
            if not defs:
                return False
            for d_ in defs:
                v = flow.def_value(cfg_, d_, nm.id)
                if v is None or not private(cfg_, fn_, v, d_, blocked_, depth + 1):
                    return False
        return True
    n14 = 0
    for mname, sink_attr, spec in (("add_component", "append", {"insert_copy": True}), ("update_component", "update", {})):
        f14 = an.methods.get(mname)
        ctx.require(f14 is not None, "anchor missing: FlowIRConcrete.%s" % mname)
        c14 = CFG(f14)
        blocked14 = flow.specialise(c14, spec) if spec else set()
        params14 = {a_.arg for a_ in f14.args.args[1:]}
        for nd in c14.nodes:
            if nd.kind != "stmt" or nd.ast is None:
                continue
            for c_ in own_calls(nd.ast):
                if last_attr(c_) == sink_attr and c_.args and isinstance(c_.func.value, ast.Name) and not (isinstance(c_.args[0], ast.Name) and c_.args[0].id == 'self'):
                    n14 += 1
                    ctx.analysed(f14)
                    ok = private(c14, f14, c_.args[0], nd.id, blocked14)
                    ctx.ob("C08.R14-stored-components-are-private", c_, ok,
                           "%s: the definition that enters the description derives from a deep copy of the caller's object" % mname if ok else
                           "%s puts a definition into the description that is not a deep copy of what the caller handed in (%s): override_object / dict() carry "
                           "the nested sections over by reference, so two components added or updated from definitions derived from one dictionary share "
                           "their 'variables' / 'command' sections - set_component_variable on one of them changes the other, whose cache entries are not "
                           "invalidated, and its next query differs from the configuration computed from scratch" % (mname, short(c_, 50)),
                           construct="%s: %s receives a private copy" % (mname, short(c_, 40)))
    init14 = an.methods.get("__init__")
    for nested in [x for x in ast.walk(init14) if isinstance(x, ast.FunctionDef) and x is not init14] if init14 is not None else []:
        used_on_components = any(isinstance(c_, ast.Call) and call_name(c_) == "map" and c_.args and isinstance(c_.args[0], ast.Name)
                                 and c_.args[0].id == nested.name for c_ in ast.walk(init14))
        if not used_on_components:
            continue
        cN = CFG(nested)
        for nd in cN.nodes:
            if nd.kind == "stmt" and isinstance(nd.ast, ast.Return) and nd.ast.value is not None:
                n14 += 1
                ok = private(cN, nested, nd.ast.value, nd.id, set())
                ctx.ob("C08.R14-stored-components-are-private", nd.ast, ok,
                       "the constructor copies every component on its own before it enters the description" if ok else
                       "the constructor's per-component pipeline returns a component that is not copied on its own: deep_copy of the WHOLE document keeps "
                       "the aliasing between components that share a section through a YAML anchor - an update of one of them changes the other "
                       "behind the cache", construct="FlowIRConcrete.__init__.%s: %s" % (nested.name, short(nd.ast, 40)))
    ctx.floor("C08.R14-stored-components-are-private", n14, 3, "places where a component definition enters the description")

    # ---- R6: read set of get_component_configuration ------------------------------------
    closure: List[str] = []
    todo = ["get_component_configuration"]
    ctx.require("get_component_configuration" in an.methods, "anchor missing: FlowIRConcrete.get_component_configuration")
    while todo:
        m = todo.pop()
        if m in closure:
            continue
        closure.append(m)
        f = an.methods[m]
        for c in source.calls_in(f):
            cn = call_name(c) or ""
            if cn.startswith("self.") and cn[5:] in an.methods:
                todo.append(cn[5:])
        for n in source.walk_own(f):
            if isinstance(n, ast.Attribute) and isinstance(n.value, ast.Name) and n.value.id == "self" \
                    and n.attr in an.methods and an._is_property(n.attr):
                todo.append(n.attr)
    read_regions: Dict[str, ast.AST] = {}
    whole_passes: List[str] = []
    for m in closure:
        f = an.methods[m]
        for n in source.walk_own(f):
            if isinstance(n, ast.Subscript) and an.is_self_attr(n.value, "_flowir"):
                read_regions.setdefault(an.field(n.slice) or "?", n)
            elif isinstance(n, ast.Call) and isinstance(n.func, ast.Attribute) and n.func.attr == "get" \
                    and an.is_self_attr(n.func.value, "_flowir") and n.args:
                read_regions.setdefault(an.field(n.args[0]) or "?", n)
            elif isinstance(n, ast.Call):
                for a in list(n.args) + [k.value for k in n.keywords]:
                    if an.is_self_attr(a, "_flowir"):
                        whole_passes.append(call_name(n) or "?")
    allowed_whole = {"FlowIR.discover_platforms", "FlowIR.fill_in"}
    for region, node in sorted(read_regions.items()):
        ok = region in BASE_RELEVANT
        if not ok:
            an.relevant.add(region)
        ctx.ob("C08.R6-readset", node, True,
               "get_component_configuration's accessor closure reads region '%s' (%s)"
               % (region, "frozen as configuration-relevant" if ok else "NEW - now treated as relevant for R1"))
    for w in sorted(set(whole_passes)):
        if not (w in allowed_whole or w.startswith("experiment.model.errors.")):
            raise AnalysisError("get_component_configuration's closure passes the whole document to %s; "
                                "cannot bound its read set" % w)
    ctx.floor("C08.R6-readset", len(read_regions), 2, "regions read by the resolver")
    ctx.extra["resolver_closure"] = sorted(closure)
    ctx.extra["cache_filling_methods"] = sorted(an.fillers)

    # ---- R1/R2: every public method, every specialisation ---------------------------------
    roots: List[Tuple[Tuple[str, str], Dict[str, Any]]] = []
    for name, fn in sorted(an.methods.items()):
        params = [a.arg for a in fn.args.args]
        envs: List[Dict[str, Any]] = [{}]
        for sp in SPEC_PARAMS:
            if sp in params:
                envs = [dict(e, **{sp: b}) for e in envs for b in (True, False)]
        for env in envs:
            roots.append((("m", name), env))
    rounds = an.solve_all(roots)
    an.flush()
    ctx.extra["fixpoint_rounds"] = rounds
    ctx.calls_resolved = an.resolved_calls
    ctx.calls_unresolved = an.unresolved_calls
    ctx.extra["helper_summaries"] = {
        k[0][1]: {"returns": sorted(s.param_returns), "writes": sorted(s.param_writes)}
        for k, s in sorted(an.memo.items(), key=lambda kv: str(kv[0])) if k[0][0] == "h" and (s.param_returns or s.param_writes)}
    n_writes = sum(1 for o in ctx.obligations if o["rule"] == "C08.R1-write-invalidate")
    ctx.floor("C08.R1-write-invalidate", n_writes, 12, "write sites into configuration regions")
    n_ret = sum(1 for o in ctx.obligations if o["rule"] == "C08.R2-alias-handout")
    ctx.floor("C08.R2-alias-handout", n_ret, 3, "alias-returning paths")
    esc = sorted({e for s in an.memo.values() for e in s.escapes})
    for e in esc:
        ctx.note("alias escape (assumed not to write): " + e)

    # ---- R2b: call sites of alias hand-out methods --------------------------------------
    tier_mods = list(ctx.repo.modules())
    sites = 0
    for m in tier_mods:
        for fn in m.functions.values():
            for c in source.calls_in(fn):
                if source.last_attr(c) in ALIAS_HANDOUT_BY_CALLSITE and isinstance(c.func, ast.Attribute):
                    rc = [k for k in c.keywords if k.arg == "return_copy"]
                    val = eval_const(rc[0].value, {}) if rc else (eval_const(c.args[0], {}) if c.args else True)
                    if val is True:
                        continue
                    sites += 1
                    _check_handout_site(ctx, m, fn, c)
    ctx.floor("C08.R2b-callsite", sites, 1, "call sites of get_components(return_copy=False)")

    # ---- R3: privacy of cache values -------------------------------------------------------
    cache_get = mod.func("FlowIRCache.get")
    rets = [n for n in source.walk_own(cache_get) if isinstance(n, ast.Return) and n.value is not None]
    ctx.require(bool(rets), "FlowIRCache.get has no return")
    for r in rets:
        ok = isinstance(r.value, ast.Call) and (call_name(r.value) in COPY_CALLS)
        ctx.ob("C08.R3-private-values", r, ok,
               "FlowIRCache.get returns a deep copy of the entry" if ok else
               "FlowIRCache.get returns the stored object itself: callers can mutate the cache entry")
    gi = mod.func("FlowIRCache.__getitem__")
    rets = [n for n in source.walk_own(gi) if isinstance(n, ast.Return) and n.value is not None]
    for r in rets:
        ok = isinstance(r.value, ast.Call) and call_name(r.value) in ("self.get",) or \
            (isinstance(r.value, ast.Call) and call_name(r.value) in COPY_CALLS)
        ctx.ob("C08.R3-private-values", r, ok,
               "FlowIRCache.__getitem__ delegates to get()" if ok else
               "FlowIRCache.__getitem__ does not go through the copying get()")
    # what is stored
    cache_set = mod.func("FlowIRCache.set")
    set_copies = False
    for n in source.walk_own(cache_set):
        if isinstance(n, ast.Assign) and isinstance(n.targets[0], ast.Subscript) \
                and an.is_self_attr(n.targets[0].value, "_cache"):
            set_copies = isinstance(n.value, ast.Call) and call_name(n.value) in COPY_CALLS
    stores = 0
    for name, fn in an.methods.items():
        for n in source.walk_own(fn):
            val = None
            if isinstance(n, ast.Assign) and any(isinstance(t, ast.Subscript) and an.is_self_attr(t.value, "_cache")
                                                 for t in n.targets):
                val = n.value
            elif isinstance(n, ast.Call) and call_name(n) in ("self._cache.set", "self._cache.__setitem__") \
                    and len(n.args) >= 2:
                val = n.args[1]
            if val is None:
                continue
            stores += 1
            ok = set_copies or (isinstance(val, ast.Call) and call_name(val) in COPY_CALLS)
            ctx.ob("C08.R3-private-values", n, ok,
                   "the object stored in the cache is a deep copy (the returned configuration never aliases the entry)"
                   if ok else "the object stored in the cache is also returned to the caller / kept by the method: "
                              "mutating the returned configuration changes later cache hits")
    ctx.floor("C08.R3-private-values", stores, 1, "cache store sites in FlowIRConcrete")
    # nobody reads FlowIRCache's private dict from outside the class
    for m in tier_mods:
        for n in ast.walk(m.tree):
            if isinstance(n, ast.Attribute) and n.attr == "_cache" and isinstance(n.value, ast.Attribute) \
                    and n.value.attr == "_cache":
                ctx.ob("C08.R3-private-values", n, False,
                       "direct access to FlowIRCache's private dictionary bypasses the copying accessors")
    # cache hits are returned through the copying accessors only
    gcc = an.methods["get_component_configuration"]
    for n in source.walk_own(gcc):
        if isinstance(n, ast.Return) and n.value is not None:
            for sub in ast.walk(n.value):
                if an.is_self_attr(sub, "_cache"):
                    p = source.parent(sub)
                    ok = isinstance(p, ast.Subscript) or (isinstance(p, ast.Attribute) and p.attr == "get")
                    ctx.ob("C08.R3-private-values", n, ok,
                           "cache hit returned through the copying accessor" if ok else
                           "cache hit returned without the copying accessor")

    # ---- R4: key coverage and guard ---------------------------------------------------------
    _check_key(ctx, an)
    _check_cached_is_returned(ctx, an)

    # ---- R5: external writers -----------------------------------------------------------------
    ext = 0
    for m in tier_mods:
        if m.rel == FLOWIR:
            continue
        for n in ast.walk(m.tree):
            if isinstance(n, ast.Attribute) and n.attr in ("_flowir", "_component_dictionary", "_cache"):
                if n.attr == "_cache" and not _is_concrete_receiver(n.value):
                    continue
                if n.attr == "_flowir" and isinstance(n.value, ast.Name) and n.value.id == "self" and \
                        not _class_is_concrete_subclass(n):
                    continue
                ext += 1
                p = source.parent(n)
                region = None
                is_write = False
                if isinstance(p, ast.Subscript):
                    region = an.field(p.slice) or _const_attr_field(an, p.slice)
                    pp = source.parent(p)
                    cur = p
                    while isinstance(pp, ast.Subscript) and pp.value is cur:
                        cur, pp = pp, source.parent(pp)
                    if isinstance(pp, (ast.Assign, ast.AugAssign, ast.Delete)) and isinstance(getattr(cur, "ctx", None), (ast.Store, ast.Del)):
                        is_write = True
                    if isinstance(pp, ast.Attribute) and pp.attr in MUTATORS:
                        is_write = True
                if n.attr == "_cache":
                    ctx.ob("C08.R5-external", n, False, "code outside flowir.py touches FlowIRConcrete._cache")
                elif is_write and (region is None or region in an.relevant):
                    ctx.ob("C08.R5-external", n, False,
                           "code outside flowir.py writes region '%s' of a FlowIRConcrete directly (no invalidation)"
                           % region)
                else:
                    ctx.ob("C08.R5-external", n, True,
                           "external access to %s: %s region '%s' (not configuration-relevant or read-only)"
                           % (n.attr, "write to" if is_write else "read of", region))
    ctx.extra["external_private_accesses"] = ext

    if ctx.tier == "thorough":
        _thorough_external_aliases(ctx, an, tier_mods)


def _const_attr_field(an: Analysis, key: ast.AST) -> Optional[str]:
    d = dotted(key)
    if d and d.split(".")[-1] in an.consts:
        v = an.consts[d.split(".")[-1]]
        return v if isinstance(v, str) else None
    return None


def _is_concrete_receiver(e: ast.AST) -> bool:
    d = dotted(e) or ""
    return "concrete" in d.lower() or "unreplicated" in d.lower() or "flowir" in d.lower()


def _class_is_concrete_subclass(n: ast.AST) -> bool:
    c = source.enclosing_class(n)
    if c is None:
        return False
    return any((dotted(b) or "").endswith("FlowIRConcrete") for b in c.bases)


def _check_handout_site(ctx, m, fn, call: ast.Call) -> None:
    """R2b: in the calling function, every write through the handed-out alias is followed on every path by an
    invalidation call on the same receiver (invalidate_cache_for_component / _cache.clear / refresh...)."""
    cfg = CFG(fn)
    ctx.analysed(fn)
    recv = dotted(call.func.value) if isinstance(call.func, ast.Attribute) else None
    st = source.stmt_of(call)
    names: Set[str] = set()
    if isinstance(st, ast.Assign) and st.value is call:
        for t in st.targets:
            if isinstance(t, ast.Name):
                names.add(t.id)
    # propagate through simple copies / loops (flow-insensitive inside this function)
    changed = True
    while changed:
        changed = False
        for n in source.walk_own(fn):
            if isinstance(n, (ast.For,)) and set(source.names_in(n.iter)) & names:
                for t in ast.walk(n.target):
                    if isinstance(t, ast.Name) and t.id not in names:
                        names.add(t.id)
                        changed = True
            if isinstance(n, ast.Assign) and isinstance(n.value, (ast.Name, ast.Subscript)) \
                    and set(source.names_in(n.value)) & names and not isinstance(n.value, ast.Call):
                for t in n.targets:
                    if isinstance(t, ast.Name) and t.id not in names:
                        names.add(t.id)
                        changed = True
    inv_nodes = []
    for n in cfg.nodes:
        if n.ast is None:
            continue
        for c in own_calls(n.ast):
            cn = call_name(c) or ""
            if recv and cn.startswith(recv + ".") and cn.split(".")[-1] in (
                    "invalidate_cache_for_component", "update_component") or cn.endswith("._cache.clear"):
                inv_nodes.append(n)
    writes = 0
    for n in cfg.nodes:
        a = n.ast
        if a is None or n.kind != "stmt":
            continue
        hit = None
        tg: List[ast.AST] = []
        if isinstance(a, ast.Assign):
            tg = list(a.targets)
        elif isinstance(a, (ast.AugAssign,)):
            tg = [a.target]
        elif isinstance(a, ast.Delete):
            tg = list(a.targets)
        for t in tg:
            if isinstance(t, ast.Subscript):
                root = t
                while isinstance(root, ast.Subscript):
                    root = root.value
                if isinstance(root, ast.Name) and root.id in names:
                    hit = a
        for c in own_calls(a):
            if isinstance(c.func, ast.Attribute) and c.func.attr in MUTATORS:
                root = c.func.value
                while isinstance(root, ast.Subscript):
                    root = root.value
                if isinstance(root, ast.Name) and root.id in names:
                    hit = a
        if hit is None:
            continue
        writes += 1
        ok = cfg.every_path_from_passes(n, inv_nodes, exits=[cfg.exit], ignore_labels=("exc",))
        ctx.ob("C08.R2b-callsite", a, ok,
               ("write through the alias returned by %s is followed on every normal path by an invalidation on %s"
                % (short(call, 80), recv)) if ok else
               ("write through the alias returned by %s can leave %s without invalidating the cache of %s"
                % (short(call, 80), source.qualname(fn), recv)))
    if writes == 0:
        ctx.ob("C08.R2b-callsite", call, True, "alias handed out but not written through in this function",
               trivial=True)


def _check_cached_is_returned(ctx, an: Analysis) -> None:
    """R7: a cache hit must hand out what a miss returned."""
    fn = an.methods["get_component_configuration"]
    cfg = an.cfg_of(fn)
    rule = "C08.R7-cached-is-returned"
    # stores into the cache: self._cache[<label>] = f(<local>)  /  self._cache.set(<label>, f(<local>))
    stores = []
    for n in cfg.nodes:
        a = n.ast
        if n.kind != "stmt" or a is None:
            continue
        if isinstance(a, ast.Assign) and any(isinstance(t, ast.Subscript) and (dotted(t.value) or "").endswith("_cache") for t in a.targets):
            stores.append((n, a.value))
        for c in own_calls(a):
            if (call_name(c) or "").endswith("_cache.set") and len(c.args) >= 2:
                stores.append((n, c.args[1]))
    ctx.floor(rule, len(stores), 1, "cache stores in get_component_configuration")
    for (sn, val) in stores:
        names = [x.id for x in ast.walk(val) if isinstance(x, ast.Name) and x.id not in ("deep_copy", "copy", "deepcopy")]
        cached = names[0] if names else None
        ctx.require(cached is not None, "cannot see which local is stored in the component cache")
        after = cfg.reach([m for (m, lab) in sn.succ if lab is None], ignore_labels=("exc",))

        def touches(n_) -> Optional[ast.AST]:
            a_ = n_.ast
            if a_ is None or n_.kind not in ("stmt", "for", "with"):
                return None
            if isinstance(a_, (ast.Assign, ast.AugAssign, ast.AnnAssign)):
                tg = a_.targets if isinstance(a_, ast.Assign) else [a_.target]
                for t in tg:
                    root = t
                    while isinstance(root, (ast.Subscript, ast.Attribute)):
                        root = root.value
                    if isinstance(root, ast.Name) and root.id == cached:
                        return a_
            if isinstance(a_, ast.Delete):
                for t in a_.targets:
                    root = t
                    while isinstance(root, (ast.Subscript, ast.Attribute)):
                        root = root.value
                    if isinstance(root, ast.Name) and root.id == cached:
                        return a_
            if not isinstance(a_, (ast.FunctionDef, ast.ClassDef, ast.If, ast.While, ast.For, ast.Try, ast.With)):
                for c in own_calls(a_):
                    if isinstance(c.func, ast.Attribute) and c.func.attr in ("update", "pop", "setdefault", "clear", "popitem", "append", "extend",
                                                                            "remove", "insert", "__setitem__"):
                        root = c.func.value
                        while isinstance(root, (ast.Subscript, ast.Attribute, ast.Call)):
                            root = root.func.value if isinstance(root, ast.Call) and isinstance(root.func, ast.Attribute) else getattr(root, "value", None)
                            if root is None:
                                break
                        if isinstance(root, ast.Name) and root.id == cached:
                            return c
            return None
        rets = [n_ for n_ in cfg.nodes if n_.id in after and n_.kind == "stmt" and isinstance(n_.ast, ast.Return)
                and isinstance(n_.ast.value, ast.Name) and n_.ast.value.id == cached]
        bad = [touches(n_) for n_ in cfg.nodes if n_.id in after and touches(n_) is not None]
        ok = bool(rets) and not bad
        ctx.ob(rule, sn.ast, ok,
               "'%s' is returned as it was stored in the cache" % cached if ok else
               ("after '%s' has been stored in the cache it is still modified before it is returned (%s): a miss returns the corrected "
                "value, every later hit the uncorrected one - e.g. an interpreter component gets expandArguments 'none' on the first "
                "query and 'double-quote' from the cache" % (cached, short(bad[0], 70))) if bad else
               "the value stored in the cache is not the value that is returned",
               construct="cache store of %s is the last write before 'return %s'" % (cached, cached))


def _check_key(ctx, an: Analysis) -> None:
    fn = an.methods["get_component_configuration"]
    cfg = an.cfg_of(fn)
    params = [a.arg for a in fn.args.args if a.arg != "self"]
    # the label
    label_assign = None
    guard_assign = None
    for n in source.walk_own(fn):
        if isinstance(n, ast.Assign) and len(n.targets) == 1 and isinstance(n.targets[0], ast.Name):
            if n.targets[0].id == "cache_label" or (
                    isinstance(n.value, ast.BinOp) and isinstance(n.value.left, ast.Constant)
                    and isinstance(n.value.left.value, str) and n.value.left.value.startswith("component:")):
                label_assign = label_assign or n
    ctx.require(label_assign is not None, "cannot find the cache label construction in get_component_configuration")
    label_name = label_assign.targets[0].id
    label_src = source.src(label_assign.value)
    parts = {"platform": "platform" in source.names_in(label_assign.value)}
    subs = [source.src(s) for s in ast.walk(label_assign.value) if isinstance(s, ast.Subscript)]
    id_param = params[0] if params else "comp_id"
    parts["%s[0]" % id_param] = ("%s[0]" % id_param) in subs
    parts["%s[1]" % id_param] = ("%s[1]" % id_param) in subs
    via_helper = isinstance(label_assign.value, ast.Call) and (call_name(label_assign.value) or "").startswith("self.") \
        and (call_name(label_assign.value) or "")[5:] in an.methods
    if via_helper:
        # the label is produced by a helper method: what it covers is decided below, through the helper's parameters
        hm0 = an.methods[(call_name(label_assign.value) or "")[5:]]
        hp0 = [a_.arg for a_ in hm0.args.args[1:]]
        passed = {hp0[i_]: a_ for i_, a_ in enumerate(label_assign.value.args) if i_ < len(hp0)}
        passed.update({k_.arg: k_.value for k_ in label_assign.value.keywords if k_.arg in hp0})
        hsubs = [source.src(s_) for r_ in source.walk_own(hm0) if isinstance(r_, ast.Return) and r_.value is not None for s_ in ast.walk(r_.value) if isinstance(s_, ast.Subscript)]
        idp = next((pn for pn, a_ in passed.items() if isinstance(a_, ast.Name) and a_.id == id_param), None)
        parts = {"platform": parts["platform"] or any(isinstance(a_, ast.Name) and a_.id == "platform" for a_ in passed.values()),
                 "%s[0]" % id_param: idp is not None and ("%s[0]" % idp) in hsubs,
                 "%s[1]" % id_param: idp is not None and ("%s[1]" % idp) in hsubs}
    for k, ok in parts.items():
        ctx.ob("C08.R4-key", label_assign, ok,
               "cache label contains %s" % k if ok else "cache label omits %s: entries of different %s collide" % (k, k),
               construct="%s includes %s" % (short(label_assign, 120), k))
    # cache uses are guarded
    uses: List[Node] = []
    for n in cfg.nodes:
        if n.ast is None or n.kind not in ("stmt", "test"):
            continue
        for sub in ast.walk(n.ast) if not isinstance(n.ast, (ast.If, ast.For, ast.While, ast.Try, ast.With)) else []:
            if an.is_self_attr(sub, "_cache"):
                uses.append(n)
                break
    ctx.require(len(uses) >= 2, "expected cache lookup and store in get_component_configuration")
    # the guard variable: a test node on a Name that dominates all cache uses
    cand: Dict[str, int] = {}
    for n in cfg.nodes:
        if n.kind == "test" and isinstance(n.ast, ast.Name):
            cand[n.ast.id] = cand.get(n.ast.id, 0) + 1
    guard_name = None
    for nm in cand:
        tests = [n for n in cfg.nodes if n.kind == "test" and isinstance(n.ast, ast.Name) and n.ast.id == nm]
        if all(cfg.every_path_to_passes(u, gate_edges=[]) or
               (u.id not in cfg.reach([cfg.entry], blocked_edges={(t.id, "T") for t in tests}))
               for u in uses):
            guard_name = nm
            break
    ok = guard_name is not None
    for u in uses:
        ctx.ob("C08.R4-key", u.ast, ok,
               "cache access is reachable only on the true side of the guard '%s'" % guard_name if ok else
               "cache access is not dominated by a guard pinning the remaining parameters")
    if not ok:
        return
    for n in source.walk_own(fn):
        if isinstance(n, ast.Assign) and len(n.targets) == 1 and isinstance(n.targets[0], ast.Name) \
                and n.targets[0].id == guard_name:
            guard_assign = n
    ctx.require(guard_assign is not None, "guard variable %s is not assigned" % guard_name)
    gnames = set(source.names_in(guard_assign.value))
    # (an earlier version exempted ignore_convert_errors as "only matters for erroneous configurations"; a lenient query followed
    # by a strict one showed that the exemption hid a genuine defect - see DESIGN section 5 - and it was removed)
    # .. which they are only if the label really is built from them.  A label produced by a helper is followed into the helper: a format
    # argument that is a parameter of the helper counts only when the CALLER passes it (a parameter left at its default - 'platform=None' and
    # 'platform or self._platform' - keys every platform's entry by the active platform: two platforms share one cache entry)
    lab_expr = label_assign.value
    helper_fmt = None
    covered = set(source.names_in(lab_expr))
    if isinstance(lab_expr, ast.Call) and (call_name(lab_expr) or "").startswith("self.") and (call_name(lab_expr) or "")[5:] in an.methods:
        hm = an.methods[(call_name(lab_expr) or "")[5:]]
        hparams = [a_.arg for a_ in hm.args.args[1:]]
        bound = {}
        for i_, a_ in enumerate(lab_expr.args):
            if i_ < len(hparams):
                bound[hparams[i_]] = a_
        for k_ in lab_expr.keywords:
            if k_.arg in hparams:
                bound[k_.arg] = k_.value
        rets_ = [r_.value for r_ in source.walk_own(hm) if isinstance(r_, ast.Return) and r_.value is not None]
        covered = set()
        for r_ in rets_:
            for nm_ in source.names_in(r_):
                if nm_ in bound:
                    covered |= set(source.names_in(bound[nm_]))
            if isinstance(r_, ast.BinOp) and isinstance(r_.left, ast.Constant) and isinstance(r_.left.value, str):
                helper_fmt = r_.left.value
    for need_ in (id_param, "platform"):
        okc = need_ in covered
        ctx.ob("C08.R4-key", label_assign, okc,
               "the cache label is built from %s" % need_ if okc else
               "the cache label (%s) is not built from the query's %s: entries computed for different values of it share one key - a cacheable query "
               "with platform=P and one on the active platform return each other's configuration (global and stage variables, blueprints and "
               "override of the wrong platform)" % (short(lab_expr, 50), need_), construct="cache label covers %s" % need_)
    exempt = {id_param: "part of the key", "platform": "part of the key"}
    for p in params:
        if p in exempt:
            ctx.ob("C08.R4-key", guard_assign, True, "parameter %s: %s" % (p, exempt[p]),
                   construct="guard covers %s" % p, trivial=True)
            continue
        okp = p in gnames
        ctx.ob("C08.R4-key", guard_assign, okp,
               ("parameter %s is pinned by the guard %s" % (p, guard_name)) if okp else
               ("parameter %s changes the result but is neither in the cache key nor pinned by the guard %s: "
                "a query with another value of %s receives a cached answer computed for a different one"
                % (p, guard_name, p)),
               construct="guard %s covers %s" % (short(guard_assign, 120), p))
    # the guard must pin each parameter to a single value: a conjunction of literals
    conj_ok = _is_pinning_conjunction(guard_assign.value, set(params))
    ctx.ob("C08.R4-key", guard_assign, conj_ok,
           "the guard is a conjunction of single-value tests of the parameters" if conj_ok else
           "the guard is not a conjunction pinning each parameter to one value")

    # R4b: invalidation patterns agree with the label format
    fmt = None
    if isinstance(label_assign.value, ast.BinOp) and isinstance(label_assign.value.left, ast.Constant):
        fmt = label_assign.value.left.value
    elif isinstance(label_assign.value, ast.JoinedStr):
        fmt = "".join(v.value if isinstance(v, ast.Constant) else "%s" for v in label_assign.value.values)
    if not isinstance(fmt, str):
        fmt = helper_fmt
    ctx.require(isinstance(fmt, str), "cache label is not a %-format or f-string")
    expected = fmt.replace("%s", ".*", 1)
    pats = 0
    for name, f in an.methods.items():
        for c in source.calls_in(f):
            if (call_name(c) or "").endswith("_cache.invalidate_reg_expression") and c.args:
                a0 = c.args[0]
                pf = None
                if isinstance(a0, ast.BinOp) and isinstance(a0.left, ast.Constant):
                    pf = a0.left.value
                elif isinstance(a0, ast.JoinedStr):
                    pf = "".join(v.value if isinstance(v, ast.Constant) else "%s" for v in a0.values)
                elif isinstance(a0, ast.Constant):
                    pf = a0.value
                pats += 1
                okp = pf == expected
                ctx.ob("C08.R4b-pattern", c, okp,
                       "invalidation pattern %r matches every platform's label %r for the component" % (pf, fmt)
                       if okp else "invalidation pattern %r does not correspond to the label format %r (expected %r): "
                                   "entries survive invalidation" % (pf, fmt, expected))
                # the ids substituted must be the component's stage and name
                if isinstance(a0, ast.BinOp) and isinstance(a0.right, ast.Tuple):
                    ok2 = len(a0.right.elts) == 2
                    ctx.ob("C08.R4b-pattern", c, ok2, "pattern is filled with (stage, name)" if ok2 else
                           "pattern is not filled with exactly (stage, name)", construct=short(a0, 160), trivial=True)
                    # the name is free text (validation accepts 'a+b'): it must go into the regular expression escaped; the
                    # stage is an integer
                    if ok2:
                        nm = a0.right.elts[1]
                        esc = isinstance(nm, ast.Call) and (call_name(nm) or "").endswith("re.escape")
                        ctx.ob("C08.R4b-pattern", c, esc,
                               "the component name is escaped before it is interpolated into the invalidation pattern" if esc else
                               "the component name %s is interpolated into the invalidation pattern without re.escape: for a name with a "
                               "regular-expression metacharacter ('a+b', 'a?b') the pattern does not match the component's own cache "
                               "labels, every mutator leaves the stale resolved configuration in the cache" % short(nm, 40),
                               construct="%s: name escaped" % short(a0, 100))
    ctx.floor("C08.R4b-pattern", pats, 1, "invalidate_reg_expression call sites")


def _is_pinning_conjunction(e: ast.AST, params: Set[str]) -> bool:
    vals = e.values if isinstance(e, ast.BoolOp) and isinstance(e.op, ast.And) else [e]
    if isinstance(e, ast.BoolOp) and not isinstance(e.op, ast.And):
        return False
    for v in vals:
        if isinstance(v, ast.Name) and v.id in params:
            continue
        if isinstance(v, ast.UnaryOp) and isinstance(v.op, ast.Not) and isinstance(v.operand, ast.Name):
            continue
        if isinstance(v, ast.Compare) and len(v.ops) == 1 and isinstance(v.left, ast.Name) \
                and isinstance(v.ops[0], (ast.Is, ast.Eq)) and isinstance(v.comparators[0], ast.Constant):
            continue
        return False
    return True


def _thorough_external_aliases(ctx, an: Analysis, mods) -> None:
    """Thorough tier: every call anywhere in the repository (outside FlowIRConcrete) of an invalidating accessor
    with return_copy=False; between the acquisition and any write through the result there must be no call that
    fills the cache on the same receiver."""
    accessors = {"get_component", "get_platform_global_variables", "get_platform_stage_variables",
                 "get_default_global_variables", "get_default_stage_variables"}
    n_sites = 0
    for m in mods:
        for fn in m.functions.values():
            if m.rel == FLOWIR and source.qualname(fn).startswith("FlowIRConcrete."):
                continue
            for c in source.calls_in(fn):
                if source.last_attr(c) in accessors and isinstance(c.func, ast.Attribute):
                    rc = [k for k in c.keywords if k.arg == "return_copy"]
                    if not rc or eval_const(rc[0].value, {}) is not False:
                        continue
                    n_sites += 1
                    recv = dotted(c.func.value)
                    cfg = CFG(fn)
                    ctx.analysed(fn)
                    here = [n for n in cfg.nodes if n.ast is not None and c in own_calls(n.ast)]
                    fill = [n for n in cfg.nodes if n.ast is not None and any(
                        (call_name(x) or "").split(".")[-1] in an.fillers for x in own_calls(n.ast))]
                    after = cfg.reach(here, include_starts=False) if here else set()
                    bad = [f for f in fill if f.id in after]
                    ctx.ob("C08.R5-external", c, not bad,
                           "external holder of an invalidating alias makes no cache-filling call afterwards"
                           if not bad else "external holder of an invalidating alias fills the cache (%s) before it may "
                                           "write through the alias" % short(bad[0].ast, 80))
    ctx.extra["external_invalidating_accessor_sites"] = n_sites
