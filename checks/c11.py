"""C11 - a workflow that loads is structurally executable; a broken one is rejected.  See DESIGN.md section C11."""
from __future__ import annotations

import ast
from typing import Dict, List, Optional, Set, Tuple

from vlib import escape, match, source
from vlib.cfg import CFG, own_calls
from vlib.source import AnalysisError, call_name, dotted, last_attr, short

FLOWIR = "python/experiment/model/frontends/flowir.py"
CONF = "python/experiment/model/conf.py"
ERRORS = "python/experiment/model/errors.py"
CLS = "FlowIRExperimentConfiguration"
ALLOWED = {"ExperimentInvalidConfigurationError", "ExperimentMissingConfigurationError"}


def check_conversion_tolerance(ctx, fl) -> None:
    """The conversion detector: in the handler of the failed `expected_type(value)` every exit that swallows the failure (a `return`
    inside the handler) is gated by the API flag that switches conversion errors off, or by a test that implies that the value
    holds at least one unresolved %(variable)s (the documented tolerance: `replica` is unknown in a primitive graph).  A test that
    is also true for a value without any variable - all(...) over the (empty) list, `not L`, a subset test - tolerates every
    mistyped constant."""
    RID = "C11.R11-conversion-tolerance-needs-a-variable"
    cct = fl.func("FlowIR.convert_component_types")
    ctx.analysed(cct)
    params = {a.arg for a in cct.args.args + cct.args.kwonlyargs}
    ctx.require("ignore_convert_errors" in params, "anchor missing: parameter ignore_convert_errors of FlowIR.convert_component_types")
    n = 0
    for f in ast.walk(cct):
        if not isinstance(f, ast.FunctionDef) or f is cct:
            continue
        handlers = [h for t in source.walk_own(f) if isinstance(t, ast.Try) for h in t.handlers
                    if any(isinstance(x, ast.Call) and (dotted(x.func) or "").split(".")[-1] == "FlowIRInvalidFieldType" for x in ast.walk(h))]
        if not handlers:
            continue
        cfg = CFG(f)
        lists = set(match.locals_where(f, lambda v: any(isinstance(c, ast.Call) and last_attr(c) in ("finditer", "findall") for c in ast.walk(v))))

        def nonempty_side(t: ast.AST) -> Optional[str]:
            neg = False
            while isinstance(t, ast.UnaryOp) and isinstance(t.op, ast.Not):
                t, neg = t.operand, not neg
            lab = None
            if isinstance(t, ast.Name) and t.id in lists:
                lab = "T"
            cp = match.compare_parts(t)
            if cp:
                l, op, r = cp
                is_l = lambda e: (isinstance(e, ast.Name) and e.id in lists) or (
                    isinstance(e, ast.Call) and call_name(e) in ("set", "list", "tuple", "sorted") and e.args and isinstance(e.args[0], ast.Name) and e.args[0].id in lists)
                lit = lambda e: isinstance(e, (ast.List, ast.Tuple, ast.Set)) and len(e.elts) >= 1
                if (is_l(l) and lit(r)) or (is_l(r) and lit(l)):
                    lab = "T" if isinstance(op, ast.Eq) else "F" if isinstance(op, ast.NotEq) else None
                elif isinstance(op, ast.In) and isinstance(l, ast.Constant) and is_l(r):
                    lab = "T"
                elif isinstance(op, ast.NotIn) and isinstance(l, ast.Constant) and is_l(r):
                    lab = "F"
                elif isinstance(l, ast.Call) and call_name(l) == "len" and l.args and is_l(l.args[0]) and isinstance(r, ast.Constant) and isinstance(r.value, int):
                    k = r.value
                    if (isinstance(op, ast.Gt) and k >= 0) or (isinstance(op, ast.GtE) and k >= 1) or (isinstance(op, ast.Eq) and k >= 1):
                        lab = "T"
                    elif (isinstance(op, ast.NotEq) and k == 0):
                        lab = "T"
                    elif (isinstance(op, ast.Eq) and k == 0) or (isinstance(op, ast.Lt) and k <= 1) or (isinstance(op, ast.LtE) and k <= 0):
                        lab = "F"
            if lab is None:
                return None
            return match.other(lab) if neg else lab
        gates = match.test_nodes(cfg, nonempty_side)
        gates += match.test_nodes(cfg, lambda t: match.polarity(t, lambda e: isinstance(e, ast.Name) and e.id == "ignore_convert_errors"))
        for h in handlers:
            for r in [x for st in h.body for x in ast.walk(st) if isinstance(x, ast.Return)]:
                nodes = [nd for nd in cfg.nodes if nd.ast is r]
                if not nodes:
                    continue
                n += 1
                ok = bool(gates) and match.only_via_edges(cfg, nodes[0], gates)
                ctx.ob(RID, r, ok,
                       "the failure is swallowed only under ignore_convert_errors or for a value that holds an unresolved variable" if ok else
                       "convert() returns the unconverted value on a path that is also taken by a value WITHOUT any %(variable)s (a test that is "
                       "vacuously true for the empty list of unresolved variables): a mistyped constant such as resourceRequest.memory: '4 gigs' "
                       "passes validation and fails later, outside the loader", construct="convert(): tolerated conversion failure <- a variable in the value")
    ctx.floor(RID, n, 2, "exits of convert()'s failure handler that swallow the conversion error")
    # what is handed to expected_type(value) at all: text, int and bool.  A float must not be among them - int(2.5) succeeds and is 2, so
    # the conversion would REPAIR a wrongly typed value before the schema (the only guard for a float given where an int is declared)
    # ever sees it
    for f in ast.walk(cct):
        if not isinstance(f, ast.FunctionDef) or f is cct:
            continue
        for t in source.walk_own(f):
            if isinstance(t, ast.Call) and call_name(t) == "isinstance" and len(t.args) == 2 and isinstance(t.args[0], ast.Name) \
                    and any(isinstance(x, ast.Name) and x.id == "string_types" for x in ast.walk(t.args[1])):
                lossy = [x.id for x in ast.walk(t.args[1]) if isinstance(x, ast.Name) and x.id in ("float", "complex", "Decimal", "object")]
                ctx.ob(RID, t, not lossy,
                       "convert() hands text, int and bool to the expected type (a float is left for the schema to judge)" if not lossy else
                       "convert() also hands %s values to expected_type(value): int(2.5) is 2 and bool(0.5) is True - a float given for an int / "
                       "bool option is silently repaired before validation, 'numberProcesses: 2.5' loads as 2 instead of being rejected"
                       % "/".join(lossy), construct="convert(): isinstance(value, <text, int, bool>)")


def check_raw_components_validated(ctx, fl) -> None:
    """FlowIR.validate (the document validator) checks every raw component - all its override sections, whatever the active
    platform - against the closed component schema.  The obligation: that loop is not reachable ONLY when an earlier schema check
    reported errors (a truthiness test of a list of errors is the inverted guard)."""
    RID = "C11.R12-raw-components-are-validated"
    fv = fl.func("FlowIR.validate")
    ctx.analysed(fv)
    cfg = CFG(fv)
    errs = set(match.locals_where(fv, lambda v: isinstance(v, ast.Call) and call_name(v) == "validate_object_schema"))
    # validate_object_schema(<element>, ..) where <element> is bound by an enclosing for loop: one validation per raw component
    def per_element(nd) -> bool:
        for c in own_calls(nd.ast):
            if isinstance(c, ast.Call) and call_name(c) == "validate_object_schema" and c.args and isinstance(c.args[0], ast.Name):
                for a in source.ancestors(nd.ast):
                    if isinstance(a, ast.For) and any(isinstance(x, ast.Name) and x.id == c.args[0].id for x in ast.walk(a.target)):
                        return True
        return False
    per_comp = [nd for nd in cfg.nodes if nd.ast is not None and nd.kind in ("stmt", "test") and per_element(nd)]
    ctx.floor(RID, len(per_comp), 1, "per-component schema validations of the raw document in FlowIR.validate")
    gates = match.test_nodes(cfg, lambda t: match.polarity(t, lambda e: isinstance(e, ast.Name) and e.id in errs))
    for nd in per_comp:
        inverted = bool(gates) and match.only_via_edges(cfg, nd, gates, ignore_labels=("exc",))
        ctx.ob(RID, nd.ast, not inverted,
               "every raw component is checked against the closed schema when the components are a list of dictionaries" if not inverted else
               "the per-component validation of the raw document runs only when an earlier schema check REPORTED errors (the guard is the "
               "truthiness of the list of errors, i.e. inverted): for a well-formed list of components it is dead code, so a misspelt option "
               "under override.<a platform that is not the active one> is never seen by a validator (instance() prunes it) and the workflow loads",
               construct="FlowIR.validate: per-component schema validation <- components is a list of dictionaries")


def check_cycle_detector(ctx, fl) -> None:
    """R5: the topological sort in propagate_replicate is (in practice) the only place where a dependency cycle becomes an
    invalid-configuration error, so the graph it sorts must contain every component->component reference."""
    rule = "C11.R5-cycle-detector-sees-every-edge"
    fn = fl.func("FlowIR.propagate_replicate")
    ctx.analysed(fn)
    cfg = CFG(fn)
    ctx.paths += cfg.paths_count()
    sorts = [c for c in ast.walk(fn) if isinstance(c, ast.Call) and (call_name(c) or "").endswith("topological_sort") and c.args]
    ctx.require(bool(sorts), "anchor missing: topological_sort in propagate_replicate")
    gname = dotted(sorts[0].args[0])
    add_edges = match.nodes_calling(cfg, lambda c: last_attr(c) == "add_edge" and dotted(c.func.value) == gname)
    ok = bool(add_edges)
    ctx.ob(rule, sorts[0], ok, "the topologically sorted graph '%s' is the one the reference edges are added to" % gname if ok else
           "no reference edge is added to the graph '%s' that is sorted topologically: cycles are not detected" % gname,
           construct="topological_sort(%s) / %s.add_edge" % (gname, gname))
    # the loop over a component's references
    heads = [n for n in cfg.nodes if n.kind == "for" and isinstance(n.ast, ast.For) and "references" in source.src(n.ast.iter)]
    ctx.require(len(heads) >= 1, "anchor missing: loop over comp.get('references') in propagate_replicate")
    head = heads[0]
    loop = head.ast
    # the reference classifier and the name that holds the producer's stage
    stage_names = set()
    for st in ast.walk(loop):
        if isinstance(st, ast.Assign) and isinstance(st.value, ast.Call) and last_attr(st.value) == "ParseDataReferenceFull" \
                and isinstance(st.targets[0], ast.Tuple) and st.targets[0].elts and isinstance(st.targets[0].elts[0], ast.Name):
            stage_names.add(st.targets[0].elts[0].id)
    ctx.require(bool(stage_names), "anchor missing: stage, producer, ... = ParseDataReferenceFull(ref, ...) in propagate_replicate")

    def not_component(t: ast.AST) -> Optional[str]:
        cp = match.compare_parts(t)
        if cp and isinstance(cp[0], ast.Name) and cp[0].id in stage_names and isinstance(cp[2], ast.Constant) and cp[2].value is None:
            if isinstance(cp[1], ast.Is):
                return "T"
            if isinstance(cp[1], ast.IsNot):
                return "F"
        return None
    tolerated = match.test_nodes(cfg, lambda t: match.polarity(t, lambda e: isinstance(e, ast.Name) and e.id == "ignore_missing_references"))
    notcomp = match.test_nodes(cfg, not_component)
    in_loop = lambda n: n.ast is not None and any(n.ast is x for x in ast.walk(loop))
    tolerated = [(n, l) for n, l in tolerated if in_loop(n)]
    notcomp = [(n, l) for n, l in notcomp if in_loop(n)]
    body_first = [m for (m, lab) in head.succ if lab == "iter"]
    allowed = {(n.id, l) for n, l in tolerated + notcomp}
    r = cfg.reach(body_first, blocked=add_edges, blocked_edges=allowed, ignore_labels=("exc", "raise"))
    ok = bool(add_edges) and head.id not in r
    # which statement lets a reference slip through (diagnosis): a continue reachable without the allowed edges
    culprit = None
    if not ok:
        for n in cfg.nodes:
            if n.id in r and isinstance(n.ast, ast.Continue) and in_loop(n):
                culprit = n.ast
                break
    ctx.ob(rule, culprit or loop, ok,
           "every component reference of a component becomes an edge of the graph that is sorted (skips: not a component "
           "reference, tolerated missing producer)" if ok else
           "a component reference can be skipped without adding its edge to the graph that is sorted topologically: a cycle "
           "closed through such a reference is not detected, the workflow loads with a cyclic graph and the components "
           "wait on each other", construct="for ref in references: add_edge on every path (allowed skips: not-a-component, ignore_missing)")
    # every component is a node of that graph
    add_nodes = [c for c in ast.walk(fn) if isinstance(c, ast.Call) and last_attr(c) == "add_node" and dotted(c.func.value) == gname]
    ok = any(isinstance(a, ast.For) and "flowir_components" in source.src(a.iter) and any(c is x for x in ast.walk(a))
             for c in add_nodes for a in ast.walk(fn))
    ctx.ob(rule, add_nodes[0] if add_nodes else fn, ok, "every component is a node of the sorted graph" if ok else
           "components are no longer all added as nodes of the sorted graph", construct="for comp in flowir_components: %s.add_node" % gname)


def run(ctx) -> None:
    from checks.c04 import schema_leaves
    ctx.explanation = (
        "Explicit-raise escape analysis (ESC) of the FlowIR loader: the exception classes that can leave "
        "FlowIRExperimentConfiguration.__init__/parametrize through explicit raises (over its self-method call graph, after "
        "subtracting enclosing handlers) are only the invalid/missing-configuration errors; the loading helpers are total-"
        "catch; _try_report_errors raises whenever validation is on and an error was recorded. Plus a fault->detector table "
        "(each single-fault class has a detector that exists and is reachable from the loader in the call graph), "
        "closed-schema/defaults agreement and 'every component is resolved'. Implicit exceptions outside try blocks and the "
        "front-end specific work done before delegating to this loader are outside the model.")
    ctx.rule("C11.R1-funnel", "with validation on, only Experiment{Invalid,Missing}ConfigurationError can leave the loader through explicit raises")
    ctx.rule("C11.R2-detectors", "every fault class of the property has a detector that exists and is reachable from the loader")
    ctx.rule("C11.R3-schema-defaults", "every default option is a schema path (a default-completed component is not rejected by the closed schema)")
    ctx.rule("C11.R4-every-component-resolved", "FlowIRConcrete.validate resolves every component inside a catch-all that records the error")
    ctx.rule("C11.R5-cycle-detector-sees-every-edge", "propagate_replicate adds an edge to the graph it sorts topologically for every "
             "component reference: a reference is skipped only when it is not a component reference or when a missing "
             "producer is tolerated; the sorted graph is the one the edges were added to")
    ctx.rule("C11.R6-undefined-variable-detector", "the detector for undefined variables is strict: interpolate swallows an unknown "
             "variable only under ignore_errors or for 'replica' in primitive mode (the validator resolves in primitive mode), "
             "the resolver calls fill_in without ignore_errors, and interpolate rescans until no reference is left "
             "(the C04.R5/R8 analysis re-used)")
    ctx.rule("C11.R7-validator-sees-every-key", "the closed-schema validation runs on the component after its layers were merged, so the "
             "merge must carry every key of the document to it: override_object copies the keys that only the higher layer "
             "defines unconditionally (a misspelled option is exactly such a key - also when its value is null)")
    ctx.rule("C11.R8-duplicate-detector-sees-every-component", "the uniqueness check runs on the components that the expansion returns, so the "
             "expansion must return every component it generates: apply_replicate accumulates them in a list, never in a mapping or set "
             "keyed by the identifier (which would merge duplicates before anyone can reject them)")
    ctx.rule("C11.R9-errors-are-raised", "in the loader modules an exception object is never built and dropped: a call to an error class as an "
             "expression statement is a rejection that does not happen")
    ctx.rule("C11.R11-conversion-tolerance-needs-a-variable", "in the handler of a failed type conversion the error is swallowed only under the "
             "ignore_convert_errors flag or under a test that implies that the value contains an unresolved variable (non-empty list of "
             "matches): otherwise FlowIRInvalidFieldType is recorded")
    ctx.rule("C11.R12-raw-components-are-validated", "FlowIR.validate checks every raw component (all override sections, not only the active platform's) "
             "against the closed component schema whenever the components are a list of dictionaries: the loop is not guarded by the "
             "truthiness of an error list")
    ctx.rule("C11.R13-a-reference-is-known-by-stage-and-name", "validate_references marks a referenced component as known only under a test that uses its whole "
             "identifier - the stage AND the name: 'stage1.setup' is dangling although 'stage0.setup' exists")
    ctx.rule("C11.R10-validators-see-process-constant-tables", "the class-level collections of FlowIR that decide whether 'name:ref' is a component or "
             "a folder (SpecialFolders, ...) are never mutated in place: otherwise what one load reserved makes a later load accept a "
             "reference to a component that does not exist")
    ctx.assume("implicit exceptions (subscripts, library calls) outside try blocks are not modelled")
    ctx.assume("calls are resolved by name (self.<method> within the class, FlowIR.<method>, module functions)")

    conf = ctx.repo.module(CONF)
    fl = ctx.repo.module(FLOWIR)
    err = ctx.repo.module(ERRORS)
    from checks.c09 import check_reserved_constants
    check_reserved_constants(ctx, fl, "C11.R10-validators-see-process-constant-tables",
                             "the folder names of one workflow (e.g. its application dependencies) stay reserved for the rest of the process: a "
                             "later workflow whose component 'solver' was dropped but which still references 'solver:ref' is no longer rejected - "
                             "validate_references classifies the dangling reference as a folder")
    hier = escape.Hierarchy([err])
    cls = conf.cls(CLS)
    methods = {st.name: st for st in cls.body if isinstance(st, ast.FunctionDef)}
    props = {n for n, f in methods.items() if any(isinstance(d, ast.Name) and d.id == "property" for d in f.decorator_list)}

    def resolve(fn, call):
        cn = call_name(call) or ""
        if cn.startswith("self.") and cn.count(".") == 1 and cn[5:] in methods:
            return methods[cn[5:]]
        if cn.startswith("cls.") and cn.count(".") == 1 and cn[4:] in methods:
            return methods[cn[4:]]
        if cn.startswith(CLS + ".") and cn.split(".")[-1] in methods:
            return methods[cn.split(".")[-1]]
        return None
    esc = escape.Escape(hier, resolve)

    # ---------------- R1 -------------------------------------------------------------------------------
    for name in ("__init__", "parametrize"):
        fn = methods.get(name)
        ctx.require(fn is not None, "anchor missing: %s.%s" % (CLS, name))
        ctx.analysed(fn)
        out = esc.escapes(fn)
        classes = sorted({c for c, _ in out})
        for c in classes:
            ok = c in ALLOWED or bool(hier.ancestors(c) & ALLOWED)
            origin = [o for (cc, o) in out if cc == c][0]
            ctx.ob("C11.R1-funnel", fn, ok,
                   "%s.%s can raise %s (an invalid/missing-configuration error)" % (CLS, name, c) if ok else
                   "%s.%s can let %s escape (%s): a broken workflow is rejected with another exception type than the "
                   "invalid-configuration error" % (CLS, name, c, origin), construct="%s escapes %s" % (name, c))
        ctx.ob("C11.R1-funnel", fn, bool(classes), "escape set of %s = %s" % (name, classes), construct="escape set of %s computed" % name, trivial=True)
    for name in ("_load_concrete", "_initialize", "validate", "_patch_in_variable_files"):
        fn = methods.get(name)
        ctx.require(fn is not None, "anchor missing: %s.%s" % (CLS, name))
        ctx.analysed(fn)
        out = esc.escapes(fn)
        ok = all(c in ALLOWED or bool(hier.ancestors(c) & ALLOWED) for c, _ in out)
        ctx.ob("C11.R1-funnel", fn, ok, "%s records every error into out_errors (only invalid/missing-configuration errors may escape)" % name if ok else
               "%s lets %s escape instead of recording it" % (name, sorted({c for c, _ in out})), construct="%s is total-catch" % name)
        # its body is (almost) entirely inside a try with a catch-all: calls outside such a try are listed
        outside = []
        for c in source.calls_in(fn):
            covered = False
            child = c
            for a in source.ancestors(c):
                if isinstance(a, ast.Try) and any(any(child is x for x in ast.walk(s)) for s in a.body) and any(
                        escape.handler_types(h) is None or "Exception" in (escape.handler_types(h) or set()) for h in a.handlers):
                    covered = True
                if a is fn:
                    break
            cn = call_name(c) or ""
            if not covered and not cn.startswith("self.log") and cn not in ("len", "isinstance", "traceback.format_exc", "type"):
                outside.append(short(c, 50))
        if outside:
            ctx.note("%s: calls outside a catch-all try (implicit exceptions not funnelled): %s" % (name, outside[:6]))
    tre = methods["_try_report_errors"]
    ctx.analysed(tre)
    cfg = CFG(tre)
    empties = match.test_nodes(cfg, lambda t: match.polarity(t, lambda e: isinstance(e, ast.Name) and e.id == "out_errors"))
    vals = match.test_nodes(cfg, lambda t: "T" if isinstance(t, ast.Name) and t.id == "validate" else None)
    raises = [n for n in cfg.nodes if n.kind == "stmt" and isinstance(n.ast, ast.Raise) and n.ast.exc is not None
              and "ExperimentInvalidConfigurationError" in source.src(n.ast.exc)]
    ok = bool(vals) and bool(raises)
    if ok:
        for (tn, lab) in vals:
            succ = [m for (m, l2) in tn.succ if l2 == lab]
            r = cfg.reach(succ, blocked=raises)
            ok = ok and cfg.exit.id not in r
        # the validate test is reached whenever out_errors is non-empty
        for (tn, lab) in empties:
            succ = [m for (m, l2) in tn.succ if l2 == lab]   # out_errors truthy
            r = cfg.reach(succ, blocked=[v for v, _ in vals])
            ok = ok and cfg.exit.id not in r
    ctx.ob("C11.R1-funnel", tre, ok, "with validation on, any recorded error raises ExperimentInvalidConfigurationError" if ok else
           "_try_report_errors can return normally although validation is on and errors were recorded: a broken workflow loads",
           construct="validate and out_errors => raise ExperimentInvalidConfigurationError")
    init = methods["__init__"]
    calls = [c for c in source.calls_in(init) if call_name(c) == "self._try_report_errors"]
    c0 = CFG(init)
    tn = match.nodes_calling(c0, lambda c: call_name(c) == "self._try_report_errors")
    ok = bool(tn) and c0.every_path_from_passes(c0.entry, tn, exits=[c0.exit], ignore_labels=("exc",))
    ctx.ob("C11.R1-funnel", calls[0] if calls else init, ok, "__init__ always ends in _try_report_errors" if ok else
           "__init__ can return without calling _try_report_errors", construct="every normal exit of __init__ passes _try_report_errors")

    # ---------------- R2 -------------------------------------------------------------------------------
    # name-based call graph over conf.py + flowir.py
    funcs: Dict[str, ast.AST] = {}
    for m in (conf, fl):
        for q, f in m.functions.items():
            funcs.setdefault(q.split(".")[-1], f)
    edges: Dict[str, Set[str]] = {}
    for m in (conf, fl):
        for q, f in m.functions.items():
            simple = q.split(".")[-1]
            s = edges.setdefault(simple, set())
            for c in source.calls_in(f, include_nested=True):
                la = last_attr(c)
                if la:
                    s.add(la)
            for n in source.walk_own(f, include_nested=True):
                if isinstance(n, ast.Attribute) and n.attr in funcs:
                    s.add(n.attr)
    # constructors: ClassName(...) reaches what ClassName.__init__ calls
    for m in (conf, fl):
        for q, c in m.classes.items():
            init_fn = m.functions.get(q + ".__init__")
            if init_fn is not None:
                s2 = edges.setdefault(c.name, set())
                for call in source.calls_in(init_fn, include_nested=True):
                    if last_attr(call):
                        s2.add(last_attr(call))
    reach: Set[str] = set()
    todo = ["__init__", "_initialize", "_load_concrete", "parametrize"]
    # __init__ is ambiguous by name; seed with the loader's own callees
    seeds = set()
    for nm in ("__init__", "parametrize", "_initialize", "_load_concrete", "validate", "replicate"):
        f = methods.get(nm)
        if f is not None:
            for c in source.calls_in(f, include_nested=True):
                if last_attr(c):
                    seeds.add(last_attr(c))
    todo = list(seeds)
    while todo:
        n = todo.pop()
        if n in reach:
            continue
        reach.add(n)
        todo.extend(edges.get(n, ()))
    ctx.extra["loader_call_graph_closure_size"] = len(reach)

    def contains_class(fn, clsname):
        return any(isinstance(x, ast.Call) and (dotted(x.func) or "").split(".")[-1] == clsname for x in ast.walk(fn))

    vos = fl.func("validate_object_schema")
    forelse = [n for n in ast.walk(vos) if isinstance(n, ast.For) and n.orelse and any(
        isinstance(x, ast.Call) and (dotted(x.func) or "").endswith("FlowIRKeyUnknown") for s in n.orelse for x in ast.walk(s))]
    table = [
        ("unknown option key", "validate_object_schema", bool(forelse), "for...else over the schema keys that records FlowIRKeyUnknown"),
        ("wrongly typed option (schema)", "validate_object_schema", contains_class(vos, "FlowIRValueInvalid"), "FlowIRValueInvalid in the schema walker"),
        ("wrongly typed option (conversion)", "convert_component_types", contains_class(fl.func("FlowIR.convert_component_types"), "FlowIRInvalidFieldType"),
         "FlowIRInvalidFieldType in convert_component_types"),
        ("dangling component reference", "validate_references", contains_class(fl.func("FlowIR.validate_component"), "FlowIRReferenceToUnknownComponent")
         and any(isinstance(r, ast.Return) and r.value is not None and "comps_missing" in source.src(r.value) for r in ast.walk(fl.func("FlowIR.validate_references"))),
         "validate_references returns the missing producers and validate_component turns them into FlowIRReferenceToUnknownComponent"),
        ("duplicate identifiers", "refresh_component_dictionary", contains_class(fl.func("FlowIRConcrete.refresh_component_dictionary"), "FlowIRInconsistency"),
         "FlowIRInconsistency in refresh_component_dictionary"),
        ("duplicate identifiers (recompute)", "_get_real_component_identifiers", "duplicates" in source.src(fl.func("FlowIRConcrete._get_real_component_identifiers"))
         and contains_class(fl.func("FlowIRConcrete._get_real_component_identifiers"), "FlowIRInconsistency"), "duplicate detection in _get_real_component_identifiers"),
        ("dependency cycle", "propagate_replicate", any(isinstance(x, ast.Call) and (call_name(x) or "").endswith("topological_sort")
                                                        for x in ast.walk(fl.func("FlowIR.propagate_replicate"))), "networkx.topological_sort in propagate_replicate"),
        ("undefined variable", "get_component_configuration", True, "resolution of every component in FlowIRConcrete.validate (see R4)"),
    ]
    for fault, fname, present, what in table:
        ok = present and fname in reach
        ctx.ob("C11.R2-detectors", funcs.get(fname, conf.tree), ok,
               "%s: detector present (%s) and reachable from the loader" % (fault, what) if ok else
               "%s: %s" % (fault, ("the detector (%s) is gone" % what) if not present else
                           "the detector %s is no longer reachable from the loader's call graph" % fname),
               construct="detector for %s: %s" % (fault, fname))
    # validate_references is called from validate_component; validate_component from FlowIRConcrete.validate
    vc = fl.func("FlowIR.validate_component")
    ok = any(last_attr(c) == "validate_references" for c in source.calls_in(vc))
    ctx.ob("C11.R2-detectors", vc, ok, "validate_component checks the references" if ok else "validate_component no longer calls validate_references")
    cv = fl.func("FlowIRConcrete.validate")
    ok = any(last_attr(c) == "validate_component" for c in source.calls_in(cv)) and any(call_name(c) == "FlowIR.validate" for c in source.calls_in(cv))
    ctx.ob("C11.R2-detectors", cv, ok, "FlowIRConcrete.validate runs the document validation and validate_component" if ok else
           "FlowIRConcrete.validate no longer runs FlowIR.validate / validate_component")
    # cycle detection is on the path of non-primitive loads: _initialize -> replicate under 'is_primitive is False'
    ini = methods["_initialize"]
    ci = CFG(ini)
    rep = match.nodes_calling(ci, lambda c: call_name(c) == "self.replicate")
    prim = match.test_nodes(ci, lambda t: match.polarity(t, lambda e: source.src(e) == "self._is_primitive"))
    ok = bool(rep) and bool(prim) and all(match.only_via_edges(ci, r, [(n, match.other(l)) for n, l in prim]) for r in rep)
    ctx.ob("C11.R2-detectors", ini, ok, "non-primitive loads replicate (topological sort => cycles are detected)" if ok else
           "_initialize no longer replicates non-primitive configurations (cycle detection is skipped)", construct="if not primitive: self.replicate()")
    val = match.nodes_calling(ci, lambda c: call_name(c) == "self.validate")
    ok = bool(val) and ci.every_path_from_passes(ci.entry, val, exits=[ci.exit], ignore_labels=("exc", "except", "raise"))
    ctx.ob("C11.R2-detectors", ini, ok, "_initialize always validates" if ok else "_initialize can finish without calling validate", construct="_initialize -> self.validate(out_errors)")
    # the topological sort's failure is recorded: replicate() is inside _initialize's catch-all (escape set empty, R1)

    # ---------------- R5 -------------------------------------------------------------------------------
    check_cycle_detector(ctx, fl)
    check_conversion_tolerance(ctx, fl)
    check_raw_components_validated(ctx, fl)

    # ---------------- R9 -------------------------------------------------------------------------------
    n_stmts = 0
    dropped = []
    errs_mod = ctx.repo.module("python/experiment/model/errors.py")
    error_classes = {c.name for c in ast.walk(errs_mod.tree) if isinstance(c, ast.ClassDef)} | {"ValueError", "TypeError", "KeyError", "RuntimeError", "Exception"}
    for rel in ("python/experiment/model/conf.py", "python/experiment/model/frontends/flowir.py", "python/experiment/model/frontends/dsl.py",
                "python/experiment/model/frontends/dosini.py", "python/experiment/model/graph.py", "python/experiment/model/data.py",
                "python/experiment/model/storage.py"):
        mm = ctx.repo.module(rel)
        for n in ast.walk(mm.tree):
            if isinstance(n, ast.Expr):
                n_stmts += 1
                if isinstance(n.value, ast.Call):
                    f_ = n.value.func
                    nm = f_.attr if isinstance(f_, ast.Attribute) else f_.id if isinstance(f_, ast.Name) else ""
                    if nm in error_classes:
                        dropped.append((mm, n))
    for (mm, n) in dropped:
        ctx.ob("C11.R9-errors-are-raised", n, False,
               "%s builds %s and drops it (no 'raise'): the condition it describes is not rejected and loading continues" % (mm.rel, short(n, 80)),
               construct="%s: %s is raised" % (mm.rel.split("/")[-1], short(n, 60)))
    if not dropped:
        ctx.ob("C11.R9-errors-are-raised", ctx.repo.module("python/experiment/model/conf.py").tree, True,
               "no error object is built and dropped in the loader modules (%d expression statements)" % n_stmts,
               construct="error objects are raised or collected, never dropped")
    ctx.floor("C11.R9-errors-are-raised", n_stmts, 500, "expression statements inspected")

    # ---------------- R8 -------------------------------------------------------------------------------
    from checks.c03 import expanded_output
    app = fl.func("FlowIR.apply_replicate")
    ctx.analysed(app)
    out_name, keyed = expanded_output(app)
    appends = [c for c in source.calls_in(app) if last_attr(c) == "append" and isinstance(c.func.value, ast.Name) and c.func.value.id == out_name]
    for kn in keyed:
        ctx.ob("C11.R8-duplicate-detector-sees-every-component", kn, False,
               "apply_replicate stores the expanded components under their identifier (%s): when a component is named like a generated copy "
               "('Sim' with replicate 2 next to an explicit 'Sim1') the later one overwrites the earlier one, so the duplicate-identifier check "
               "of FlowIRConcrete never sees two components with the same id and the workflow loads" % short(kn, 60),
               construct="apply_replicate: every generated component is returned")
    if not keyed:
        ok = bool(appends)
        ctx.ob("C11.R8-duplicate-detector-sees-every-component", appends[0] if appends else app, ok,
               "every generated component is appended to the returned list (%d sites)" % len(appends) if ok else
               "cannot see how apply_replicate accumulates its result", construct="apply_replicate: every generated component is returned")
    rcd = fl.functions.get("FlowIRConcrete.refresh_component_dictionary")
    ctx.require(rcd is not None, "anchor missing: FlowIRConcrete.refresh_component_dictionary")
    ctx.analysed(rcd)
    dup = [r for r in ast.walk(rcd) if isinstance(r, ast.Raise)]
    ctx.ob("C11.R8-duplicate-detector-sees-every-component", dup[0] if dup else rcd, bool(dup),
           "the component dictionary refuses a second component with the same identifier" if dup else
           "refresh_component_dictionary no longer raises for a duplicate identifier", construct="refresh_component_dictionary raises on duplicates")

    # ... and the constructor hands it every component it was given: the list it stores is an element-by-element image of the given list
    # (seed C11-13: entries collapsed by id() - a definition listed twice through a YAML alias is one component afterwards, so the
    # duplicate never reaches refresh_component_dictionary)
    from vlib import flow as _flow
    init = fl.func("FlowIRConcrete.__init__")
    ctx.analysed(init)
    icfg = CFG(init)
    stores = [n for n in icfg.nodes if n.kind == "stmt" and isinstance(n.ast, ast.Assign) and any(
        isinstance(t, ast.Subscript) and (dotted(t.slice) or "").endswith("FieldComponents") for t in n.ast.targets)]
    ctx.require(bool(stores), "anchor missing: FlowIRConcrete.__init__ stores the processed components")

    def image_of(e: ast.AST, at_id: int, depth: int = 0):
        """None when e is an element-by-element image of the given list at node at_id; else the offending expression"""
        if depth > 6:
            return e
        if isinstance(e, ast.Call) and call_name(e) in ("list", "tuple", "deep_copy", "copy.deepcopy", "deepcopy") and len(e.args) == 1 and not e.keywords:
            return image_of(e.args[0], at_id, depth + 1)
        if isinstance(e, ast.Call) and call_name(e) == "map" and len(e.args) == 2:
            return image_of(e.args[1], at_id, depth + 1)
        if isinstance(e, ast.ListComp) and len(e.generators) == 1 and not e.generators[0].ifs:
            return image_of(e.generators[0].iter, at_id, depth + 1)
        if isinstance(e, ast.Call) and last_attr(e) == "get" and e.args and (dotted(e.args[0]) or "").endswith("FieldComponents"):
            return None
        if isinstance(e, ast.Subscript) and (dotted(e.slice) or "").endswith("FieldComponents"):
            return None
        if isinstance(e, ast.Name):
            defs = _flow.reaching_defs(icfg, e.id).get(at_id, frozenset())
            if not defs:
                return e
            for d in defs:
                v = _flow.def_value(icfg, d, e.id) if d >= 0 else None
                if v is None:
                    return e
                bad_ = image_of(v, d, depth + 1)
                if bad_ is not None:
                    return bad_
            return None
        return e
    for sn in stores:
        bad = image_of(sn.ast.value, sn.id)
        ctx.ob("C11.R8-duplicate-detector-sees-every-component", bad if bad is not None else sn.ast, bad is None,
               "the constructor stores one processed component per component it was given" if bad is None else
               "the list of components the constructor stores is built through %s, not element by element from the given list: entries can be "
               "dropped or merged before refresh_component_dictionary looks for duplicates - a definition listed twice (e.g. through a YAML "
               "alias) becomes one component and the workflow loads although two components share an identifier" % short(bad, 70),
               construct="FlowIRConcrete.__init__: stored components are an element-wise image of the given ones")

    # ---------------- R7 -------------------------------------------------------------------------------
    from checks.c04 import novel_keys_copied
    oo = fl.func("FlowIR.override_object")
    ctx.analysed(oo)
    ok, where, why = novel_keys_copied(oo)
    ctx.ob("C11.R7-validator-sees-every-key", where, ok,
           "override_object hands every key of the higher layer to the merged component, whatever its value" if ok else
           "override_object does not copy every key that only the component defines (%s): the closed-schema check runs on the merged "
           "component, a misspelled option is always such a novel key (the defaults define every real option), so "
           "'memmory: null' or 'maxRestart:' is dropped before validation and the workflow loads" % why,
           construct="override_object: novel keys reach the schema validation")
    # the merged component is what the schema validation receives: validate_component is applied to the configuration returned by
    # get_component_configuration (checked by R4); here: the validator reports unknown keys
    vos = fl.functions.get("validate_object_schema")
    ctx.require(vos is not None, "anchor missing: validate_object_schema")
    ctx.analysed(vos)
    unknown = [c for c in ast.walk(vos) if isinstance(c, ast.Call) and (call_name(c) or "").endswith("FlowIRKeyUnknown")]
    ctx.ob("C11.R7-validator-sees-every-key", unknown[0] if unknown else vos, bool(unknown),
           "validate_object_schema reports keys that are not in the schema (FlowIRKeyUnknown)" if unknown else
           "validate_object_schema no longer reports unknown keys", construct="validate_object_schema -> FlowIRKeyUnknown")
    # .. and for EVERY key: in the loop over the keys of a dictionary each iteration either queues the key's value for validation (the key
    # matched a rule of the schema) or records FlowIRKeyUnknown.  An iteration that does neither accepts a misspelt option silently.
    vcfg = CFG(vos)
    ctx.paths += vcfg.paths_count()
    unk_nodes = [n for n in vcfg.nodes if n.ast is not None and n.kind == "stmt" and any(
        isinstance(x, ast.Call) and (call_name(x) or "").endswith("FlowIRKeyUnknown") for x in ast.walk(n.ast))]
    key_loops = [n for n in vcfg.nodes if n.kind == "for" and isinstance(n.ast, ast.For) and any(u.ast is x for u in unk_nodes for x in ast.walk(n.ast))
                 and not any(isinstance(inner, ast.For) and inner is not n.ast and any(u.ast is x for u in unk_nodes for x in ast.walk(inner))
                             and isinstance(inner.orelse, list) and not any(u.ast is x for u in unk_nodes for st_ in inner.orelse for x in ast.walk(st_))
                             for inner in ast.walk(n.ast))]
    # the outermost loop whose body holds the record and whose iteration variable is the key looked up in the object
    key_loops = [n for n in key_loops if isinstance(n.ast.target, ast.Name) and any(
        isinstance(x, ast.Subscript) and isinstance(x.slice, ast.Name) and x.slice.id == n.ast.target.id for x in ast.walk(n.ast))]
    ctx.require(bool(key_loops) or not unk_nodes, "anchor missing: the loop over the keys of a dictionary in validate_object_schema")
    for kl in key_loops[:1]:
        kv = kl.ast.target.id
        queued = [n for n in vcfg.nodes if n.ast is not None and n.kind == "stmt" and any(n.ast is x for x in ast.walk(kl.ast)) and any(
            isinstance(c_, ast.Call) and last_attr(c_) in ("append", "extend", "insert") for c_ in own_calls(n.ast)) and not any(u is n for u in unk_nodes)
            and any(isinstance(v_, ast.Assign) and any(isinstance(x, ast.Subscript) and isinstance(x.slice, ast.Name) and x.slice.id == kv for x in ast.walk(v_.value))
                    for v_ in ast.walk(kl.ast) if isinstance(v_, ast.Assign) and any(isinstance(t_, ast.Name) and any(
                        isinstance(a_, ast.Name) and a_.id == t_.id for c_ in own_calls(n.ast) for a_ in c_.args) for t_ in v_.targets))]
        ctx.require(bool(queued), "anchor missing: the statements that queue a matched key's value in validate_object_schema")
        body_start = [m for (m, lab) in kl.succ if lab == "iter"]
        r = vcfg.reach(body_start, blocked=queued + unk_nodes, ignore_labels=("exc", "raise", "uncaught"))
        # a boolean local that is raised only behind a queuing statement ('matched = True' after 'remaining.append(entry)') is still false
        # on every path that has not queued the key: the true side of its tests is infeasible there
        infeasible = []
        for (tn, lab) in match.test_nodes(vcfg, lambda t: match.polarity(t, lambda e: isinstance(e, ast.Name))):
            nm = tn.ast.id if isinstance(tn.ast, ast.Name) else next((x.id for x in ast.walk(tn.ast) if isinstance(x, ast.Name)), None)
            sets_true = [n for n in vcfg.nodes if n.kind == "stmt" and isinstance(n.ast, ast.Assign) and any(isinstance(t_, ast.Name) and t_.id == nm for t_ in n.ast.targets)
                         and not (isinstance(n.ast.value, ast.Constant) and n.ast.value.value in (False, None, 0))]
            inits = [n for n in sets_true if not any(n.ast is x for x in ast.walk(kl.ast))]
            if nm and sets_true and not inits and not any(n.id in r for n in sets_true):
                infeasible.append((tn.id, lab))
        if infeasible:
            r = vcfg.reach(body_start, blocked=queued + unk_nodes, blocked_edges=infeasible, ignore_labels=("exc", "raise", "uncaught"))
        ok = kl.id not in r
        ctx.ob("C11.R7-validator-sees-every-key", kl.ast, ok,
               "every key of a dictionary is either queued for validation under a matching rule or reported as unknown" if ok else
               "an iteration of the loop over the keys of a dictionary can end without queuing the key's value under a matching rule and without "
               "recording FlowIRKeyUnknown: a misspelt option in a section whose schema has required keys only (resourceRequest: {numberProcesess: 4}, "
               "resourceManager.config: {backnd: ..}) loads, and the default is used silently",
               construct="validate_object_schema: every key is matched or reported")

    # ---------------- R6 -------------------------------------------------------------------------------
    from checks.c04 import undefined_variable_rules
    before = len(ctx.obligations)
    undefined_variable_rules(ctx, fl, fl.func("FlowIRConcrete.get_component_configuration"),
                             "C11.R6-undefined-variable-detector", "C11.R6-undefined-variable-detector")
    ctx.floor("C11.R6-undefined-variable-detector", len(ctx.obligations) - before, 8, "obligations on the undefined-variable detector")
    # .. and the flattening that a validated, expanded load validates afterwards resolves each scope against ITS OWN variables: a substitution
    # scope that instance() builds once and keeps updating across the loop items (stages, components) lets a variable that exists only in an
    # earlier item's scope resolve a reference of a later one - the '%(x)s' disappears from the flattened description and validate() has
    # nothing left to report (the C04.R12 analysis re-used)
    from checks.c04 import check_scope_per_item
    check_scope_per_item(ctx, fl, "C11.R6-undefined-variable-detector",
                         "a stage variable that references a variable defined only in an earlier stage's scope is silently resolved with that stage's value: "
                         "the placeholder is gone from the replicated description, validation finds nothing and the workflow loads with an undefined "
                         "variable")

    # ---------------- R3 -------------------------------------------------------------------------------
    dcs = fl.func("FlowIR.default_component_structure")
    drets = [r.value for r in source.walk_own(dcs) if isinstance(r, ast.Return) and isinstance(r.value, ast.Dict)]
    ctx.require(len(drets) == 1, "anchor missing: literal of default_component_structure")
    defaults = schema_leaves(drets[0])
    gb = fl.functions.get("FlowIR.type_flowir_component.generate_blueprint")
    ctx.require(gb is not None, "anchor missing: generate_blueprint")
    ret = match.assigned_value(gb, "ret")
    schema = schema_leaves(ret[0])
    # the schema adds fields outside 'ret' for the full flavour (name/stage/variables...): collect every key('x') in the function
    tfc = fl.func("FlowIR.type_flowir_component")
    all_keys = {c.args[0].value for c in ast.walk(tfc) if isinstance(c, ast.Call) and call_name(c) in ("key", "ValidateOptional") and c.args
                and isinstance(c.args[0], ast.Constant) and isinstance(c.args[0].value, str)}
    all_keys |= {k.value for d in ast.walk(tfc) if isinstance(d, ast.Dict) for k in d.keys if isinstance(k, ast.Constant) and isinstance(k.value, str)}
    n = 0
    for path in sorted(defaults):
        n += 1
        ok = path in schema or any(path[:i] in schema for i in range(1, len(path))) or (len(path) == 1 and path[0] in all_keys) \
            or all(seg in all_keys for seg in path)
        ctx.ob("C11.R3-schema-defaults", defaults[path], ok, "default option %s is admitted by the closed schema" % ".".join(path) if ok else
               "default option %s is not a key of the closed component schema: every default-completed component is rejected "
               "with an unknown-key error" % ".".join(path), construct="default %s in schema" % ".".join(path))
    ctx.floor("C11.R3-schema-defaults", n, 25, "default option paths")

    # ---------------- R4 -------------------------------------------------------------------------------
    ctx.analysed(cv)
    # role: the identifiers recomputed from the description = the local bound to get_component_identifiers(..)
    CIDS = match.role(cv, lambda v: isinstance(v, ast.Call) and last_attr(v) == "get_component_identifiers", "component_identifiers")
    loops = [x for x in source.walk_own(cv) if isinstance(x, ast.For) and isinstance(x.iter, ast.Name) and x.iter.id == CIDS]
    ctx.require(bool(loops), "anchor missing: loop over component_identifiers in FlowIRConcrete.validate")
    lp = loops[0]
    early = [x for x in ast.walk(lp) if isinstance(x, (ast.Break, ast.Return))]
    ctx.ob("C11.R4-every-component-resolved", lp, not early, "the loop visits every component (no break/return)" if not early else
           "the validation loop can stop early (break/return): components after the first problem are not checked")
    # no component is skipped before it is resolved: inside the loop every path from the start of an iteration back to the loop head
    # passes the resolution call (or the test that sets '$import' pseudo-components aside), exception edges apart
    c_cv = CFG(cv)
    for_nodes = [n for n in c_cv.nodes if n.kind == "for" and n.ast is lp]
    res_nodes = match.nodes_calling(c_cv, lambda c: last_attr(c) == "get_component_configuration")
    res_nodes = [n for n in res_nodes if any(n.ast is x or any(n.ast is y for y in ast.walk(x)) for x in ast.walk(lp))]
    imp_tests = [n for n in c_cv.nodes if n.kind == "test" and n.ast is not None and isinstance(n.ast, ast.Compare)
                 and isinstance(n.ast.left, ast.Constant) and n.ast.left.value == "$import" and any(n.ast is y for y in ast.walk(lp))]
    if for_nodes and res_nodes:
        body_entry = [m_ for (m_, lab) in for_nodes[0].succ if lab not in ("F", "exit", "else")]
        back = c_cv.reach(body_entry, blocked=res_nodes + imp_tests, ignore_labels=("exc", "except", "raise", "uncaught"))
        skipped = for_nodes[0].id in back
        ctx.ob("C11.R4-every-component-resolved", lp, not skipped,
               "no component leaves the iteration before it was resolved" if not skipped else
               "an iteration of the validation loop can return to the loop head without resolving the component (a 'continue' ahead of "
               "get_component_configuration): the components it skips - e.g. every replica but the first - are never checked, an undefined "
               "variable or a mistyped value that only replica 1 selects ('%(array)s[%(replica)s]') loads and fails later",
               construct="validate: every component reaches get_component_configuration")
    ids = match.assigned_value(cv, CIDS)
    ok = any(isinstance(v, ast.Call) and last_attr(v) == "get_component_identifiers" and v.args and isinstance(v.args[0], ast.Constant) and v.args[0].value is True for v in ids)
    ctx.ob("C11.R4-every-component-resolved", ids[0] if ids else cv, ok, "identifiers are recomputed from the description (duplicates are detected)" if ok else
           "component identifiers are not recomputed (get_component_identifiers(True))")
    _vr = [r.value.id for r in source.walk_own(cv) if isinstance(r, ast.Return) and isinstance(r.value, ast.Name)]
    OUTERR = _vr[-1] if _vr else "out_errors"       # the list of errors that validate() returns
    gcc = [c for c in source.calls_in(lp) if last_attr(c) == "get_component_configuration"]
    ok = False
    for c in gcc:
        kw = {k.arg: k.value for k in c.keywords}
        raw_ok = isinstance(kw.get("raw"), ast.Constant) and kw["raw"].value is False
        tries = [a for a in source.ancestors(c) if isinstance(a, ast.Try) and any(any(c is x for x in ast.walk(s)) for s in a.body)]
        caught = bool(tries) and any(escape.handler_types(h) is None or "Exception" in (escape.handler_types(h) or set()) for h in tries[0].handlers)
        records = bool(tries) and any(isinstance(x, ast.Call) and last_attr(x) == "append" and dotted(x.func.value) == OUTERR
                                      for h in tries[0].handlers for x in ast.walk(h))
        ok = raw_ok and caught and records
    ctx.ob("C11.R4-every-component-resolved", gcc[0] if gcc else lp, ok,
           "every component is fully resolved (raw=False) inside a catch-all that records the failure" if ok else
           "components are not resolved with raw=False inside a recording catch-all: an undefined variable is not reported "
           "(or surfaces as another exception type)")
    # what validate_component found for a component reaches the returned list on every path of the iteration (the '$import' pseudo-components
    # apart): an early `continue` between the call and the merge drops a misspelt key or a mistyped option of exactly those components
    # that take the early path (seed C11-14: components whose environment is 'none' / 'environment' / '')
    vc_nodes = [n for n in c_cv.nodes if n.kind == "stmt" and isinstance(n.ast, ast.Assign) and isinstance(n.ast.value, ast.Call)
                and last_attr(n.ast.value) == "validate_component" and any(n.ast is y for y in ast.walk(lp))]
    ctx.require(bool(vc_nodes) and bool(for_nodes), "anchor missing: <errors> = FlowIR.validate_component(..) inside the validation loop")
    for vn in vc_nodes:
        errs = [t.id for t in vn.ast.targets if isinstance(t, ast.Name)]
        merges = [n for n in c_cv.nodes if n.kind == "stmt" and n.ast is not None and any(
            (isinstance(x, ast.Call) and last_attr(x) in ("extend", "append") and dotted(x.func.value) == OUTERR
             and any(isinstance(y, ast.Name) and y.id in errs for a_ in x.args for y in ast.walk(a_)))
            or (isinstance(x, ast.AugAssign) and isinstance(x.target, ast.Name) and x.target.id == OUTERR
                and any(isinstance(y, ast.Name) and y.id in errs for y in ast.walk(x.value)))
            for x in ast.walk(n.ast))]
        starts = [m_ for (m_, lab) in vn.succ if lab not in ("exc", "except", "raise", "uncaught")]
        back = c_cv.reach(starts, blocked=merges, blocked_edges=[(t.id, "T") for t in imp_tests],
                          ignore_labels=("exc", "except", "raise", "uncaught"))
        lost = for_nodes[0].id in back or c_cv.exit.id in back
        ctx.ob("C11.R4-every-component-resolved", vn.ast, bool(merges) and not lost,
               "the errors validate_component reports are merged into the returned list on every path of the iteration" if (merges and not lost) else
               "an iteration can end without merging what validate_component reported (%s) into %s: for the components that take that path - e.g. "
               "those whose command.environment is one of the built-in names - a misspelt option key, a mistyped option or an undeclared "
               "reference is found and then dropped, and the workflow loads" % (", ".join(errs) or "its result", OUTERR),
               construct="validate: validate_component's errors reach the returned list")
    rets = [r for r in source.walk_own(cv) if isinstance(r, ast.Return)]
    ok = len(rets) == 1 and isinstance(rets[0].value, ast.Name) and rets[0].value.id == OUTERR
    ctx.ob("C11.R4-every-component-resolved", rets[0] if rets else cv, ok, "validate returns the collected errors" if ok else "validate does not return out_errors")

    # ---------------- R13 (obligation): what counts as a component reference is decided by the documented formula ---------------
    # a reference that the parser files under "not a component" is never checked against the component identifiers: the classification
    # formula of ParseDataReferenceFull (C09.R2, decided on its truth table) is therefore part of "a dangling reference is rejected" -
    # dropping `hasIndex is False` on the reserved-folder arm lets 'stage0.data:ref' (no such component) load (seed C11-15)
    from checks import c09 as _c09
    from vlib.report import Ctx as _Ctx13
    sub13 = _Ctx13("C09", ctx.tier, ctx.repo)
    _c09.run(sub13)
    n13 = 0
    for o in sub13.obligations:
        if o["rule"] == "C09.R2-sibling-classifiers":
            o2 = dict(o)
            o2["rule"] = "C11.R13-a-reference-is-known-by-stage-and-name"
            o2["what"] = "[%s] %s" % (o["rule"], o["what"]) + ("" if o["ok"] else
                          " - a reference the parser files under 'not a component' is never looked up, so a dangling reference of that shape is not rejected")
            ctx.obligations.append(o2)
            n13 += 1
    ctx.functions_analysed |= sub13.functions_analysed
    ctx.require(n13 >= 2, "anchor missing: the classifier obligations of C09.R2")

    # ---------------- R13: known means known in THAT stage -------------------------------------------------------
    vr = fl.functions.get("FlowIR.validate_references")
    ctx.require(vr is not None, "anchor missing: FlowIR.validate_references")
    ctx.analysed(vr)
    marks = [a_ for a_ in source.walk_own(vr) if isinstance(a_, ast.Assign) and isinstance(a_.value, ast.Constant) and a_.value.value is True
             and len(a_.targets) == 1 and isinstance(a_.targets[0], ast.Subscript) and isinstance(a_.targets[0].slice, ast.Name)]
    ctx.floor("C11.R13-a-reference-is-known-by-stage-and-name", len(marks), 1, "places where validate_references marks a referenced component as known")
    for a_ in marks:
        idv = a_.targets[0].slice.id
        guard = next((x for x in source.ancestors(a_) if isinstance(x, ast.If)), None)
        whole, parts = False, set()
        if guard is not None:
            for y in ast.walk(guard.test):
                if isinstance(y, ast.Name) and y.id == idv:
                    par = source.parent(y)
                    if isinstance(par, ast.Subscript) and par.value is y and isinstance(par.slice, ast.Constant):
                        parts.add(par.slice.value)
                    else:
                        whole = True
        ok = guard is not None and (whole or {0, 1} <= parts)
        ctx.ob("C11.R13-a-reference-is-known-by-stage-and-name", guard.test if guard is not None else a_, ok,
               "a referenced component counts as known under a test of its whole identifier" if ok else
               "validate_references marks a referenced component as known under a test that uses only part of its identifier (%s): dropping 'stage1.setup' while "
               "'stage0.setup' exists, or mistyping only the stage of a reference ('stage7.run'), leaves a dangling reference that a primitive load "
               "accepts" % (short(guard.test, 50) if guard is not None else "no guard"),
               construct="validate_references: known <- stage and name")
