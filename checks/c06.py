"""C06 - DSL 2.0 compilation preserves the dataflow and parameter bindings (rejection clause and structural parts).
See DESIGN.md section C06."""
from __future__ import annotations

import ast
from typing import Dict, List, Optional, Set, Tuple

from vlib import escape, match, order, source, sub
from vlib.cfg import CFG, own_calls
from vlib.source import AnalysisError, call_name, dotted, last_attr, short

DSL = "python/experiment/model/frontends/dsl.py"
CONF = "python/experiment/model/conf.py"
ERRORS = "python/experiment/model/errors.py"

GENERIC = {"get", "append", "items", "split", "copy", "update", "add", "pop", "join", "format", "extend", "values", "keys",
           "enter", "exit", "match", "search", "finditer", "fullmatch", "group", "groupdict", "startswith", "endswith"}
# (caller, callee) call edges whose explicit raise is infeasible, confirmed by reading
INFEASIBLE = {
    ("ScopeStack.can_template_replicate", "OutputReference.from_str"):
        "from_str is applied to strings produced by finditer() of the very patterns from_str accepts (fullmatch succeeds)",
}
# functions whose locally collected plain errors are wrapped with a location before they are raised
WRAPPED_LOCALLY = {
    "ScopeStack.enter": "plain errors collected in 'errors' are wrapped into DSLInvalidFieldError(location=...) by the loop that "
                        "builds dsl_error (isinstance test)",
}
ERROR_LISTS = ("errors", "uncaught_errors", "output_errors", "underlying_errors")


def check_then_use(fn: ast.AST) -> List[Tuple[ast.AST, ast.AST]]:
    """(membership test, offending load) pairs: a subscript load D[k] reachable from the non-member side of 'k in D' /
    'k not in D' without D[k] being defined, k or D being rebound, or the function being left in between."""
    tests = [n for n in ast.walk(fn) if isinstance(n, ast.Compare) and len(n.ops) == 1 and isinstance(n.ops[0], (ast.NotIn, ast.In))]
    if not tests:
        return []
    cfg = CFG(fn)
    out: List[Tuple[ast.AST, ast.AST]] = []
    for t in tests:
        k, D = source.src(t.left), source.src(t.comparators[0])
        tn = [n for n in cfg.nodes if n.kind == "test" and n.ast is t]
        if not tn:
            continue
        lab = "T" if isinstance(t.ops[0], ast.NotIn) else "F"
        succ = [m_ for (m_, l) in tn[0].succ if l == lab]
        knames = {x.id for x in ast.walk(t) if isinstance(x, ast.Name)}

        def kills(n) -> bool:
            a = n.ast
            if a is None:
                return False
            if n.kind == "for" and isinstance(a, ast.For):
                return bool({x.id for x in ast.walk(a.target) if isinstance(x, ast.Name)} & knames)
            if n.kind not in ("stmt", "with"):
                return False
            for x in ast.walk(a):
                if isinstance(x, (ast.Assign, ast.AugAssign, ast.AnnAssign)):
                    tg = x.targets if isinstance(x, ast.Assign) else [x.target]
                    for tt in tg:
                        if isinstance(tt, ast.Subscript) and source.src(tt.value) == D and source.src(tt.slice) == k:
                            return True
                        if any(isinstance(y, ast.Name) and isinstance(y.ctx, ast.Store) and y.id in knames for y in ast.walk(tt)):
                            return True
                if isinstance(x, ast.Call) and isinstance(x.func, ast.Attribute) and x.func.attr in ("setdefault", "update") \
                        and source.src(x.func.value) == D:
                    return True
            return False
        blocked = [n for n in cfg.nodes if kills(n)]
        r = cfg.reach(succ, blocked=blocked, ignore_labels=("exc",))
        for n in cfg.nodes:
            if n.id not in r or n.ast is None or n.kind not in ("stmt", "test"):
                continue
            for x in ast.walk(n.ast):
                if isinstance(x, ast.Subscript) and isinstance(x.ctx, ast.Load) and source.src(x.value) == D and source.src(x.slice) == k:
                    # a load inside a try that catches KeyError is guarded
                    guarded = any(isinstance(a, ast.Try) and any(x is y for st in a.body for y in ast.walk(st)) and any(
                        h.type is None or "KeyError" in source.src(h.type) or source.src(h.type) == "Exception" for h in a.handlers)
                        for a in source.ancestors(x))
                    if not guarded:
                        out.append((t, x))
    return out


REGEX_API = ("compile", "sub", "subn", "match", "fullmatch", "search", "finditer", "findall", "split")


def check_literal_text_in_patterns(ctx, d) -> None:
    """A regular expression of dsl.py is a constant of the module, or - when it embeds text that exists only at run time (a reference, a
    name) - wraps every such part in re.escape().  A reference text used as a pattern as it stands treats '.', '(', ')' and '%' of the
    text as operators: '<entry-instance/gen/run-%(replica)s.log>' no longer matches itself, 'gen.a' also matches 'gen-a'."""
    RID = "C06.R15-run-time-text-in-patterns-is-escaped"
    module_consts = {t.id for st in d.tree.body if isinstance(st, ast.Assign) for t in st.targets if isinstance(t, ast.Name)}
    n = 0

    def verdict(e: ast.AST, fn, depth: int = 0) -> Optional[str]:
        """None = fine; otherwise the offending part"""
        if isinstance(e, ast.Constant):
            return None
        if isinstance(e, ast.Call) and call_name(e) == "re.escape":
            return None
        if isinstance(e, ast.Name):
            params = {a.arg for a in fn.args.args + fn.args.kwonlyargs} if isinstance(fn, (ast.FunctionDef, ast.AsyncFunctionDef)) else set()
            vals = match.assigned_value(fn, e.id) if fn is not None else []
            if not vals:
                return None if (e.id in module_consts or e.id in params) else None
            if depth < 4:
                for v in vals:
                    r = verdict(v, fn, depth + 1)
                    if r:
                        return r
            return None
        if isinstance(e, ast.Attribute):
            return None                       # a class/module level constant (cls.Pattern)
        if isinstance(e, ast.JoinedStr):
            for part in e.values:
                if isinstance(part, ast.FormattedValue):
                    r = verdict_runtime(part.value, fn, depth)
                    if r:
                        return r
            return None
        if isinstance(e, ast.BinOp) and isinstance(e.op, ast.Add):
            return verdict_part(e.left, fn, depth) or verdict_part(e.right, fn, depth)
        if isinstance(e, ast.BinOp) and isinstance(e.op, ast.Mod):
            args = e.right.elts if isinstance(e.right, ast.Tuple) else [e.right]
            for a in args:
                r = verdict_runtime(a, fn, depth)
                if r:
                    return r
            return verdict(e.left, fn, depth + 1)
        if isinstance(e, ast.Call) and last_attr(e) in ("join", "format"):
            for a in list(e.args) + [k.value for k in e.keywords]:
                r = verdict_runtime(a, fn, depth)
                if r:
                    return r
            return None
        return None

    def verdict_part(e, fn, depth):
        return None if isinstance(e, ast.Constant) else (verdict(e, fn, depth + 1) if isinstance(e, (ast.BinOp, ast.JoinedStr)) else verdict_runtime(e, fn, depth))

    def verdict_runtime(e: ast.AST, fn, depth: int) -> Optional[str]:
        """a part spliced INTO a pattern: a constant, an escaped text, a module constant (a sub-pattern) - anything else is run-time text"""
        if isinstance(e, ast.Constant) or (isinstance(e, ast.Call) and call_name(e) == "re.escape"):
            return None
        if isinstance(e, ast.Name) and e.id in module_consts and not (fn is not None and match.assigned_value(fn, e.id)):
            return None
        if isinstance(e, ast.Attribute) and isinstance(e.value, ast.Name) and e.value.id in ("cls", "self") and e.attr[:1].isupper():
            return None
        if isinstance(e, ast.Name) and fn is not None and depth < 4:
            vals = match.assigned_value(fn, e.id)
            if vals and all(verdict_runtime(v, fn, depth + 1) is None for v in vals):
                return None
        if isinstance(e, (ast.GeneratorExp, ast.ListComp)):
            return verdict_runtime(e.elt, fn, depth)
        return short(e, 40)
    for q, f in sorted(d.functions.items()):
        for c in source.calls_in(f, include_nested=False):
            if not (isinstance(c.func, ast.Attribute) and c.func.attr in REGEX_API and isinstance(c.func.value, ast.Name) and c.func.value.id == "re" and c.args):
                continue
            n += 1
            bad = verdict(c.args[0], f)
            if bad is not None:
                ctx.analysed(f)
            ctx.ob(RID, c, bad is None,
                   "the pattern is a constant, or its run-time parts are escaped" if bad is None else
                   "%s uses %s inside the pattern of %s without re.escape(): characters of the text ('.', '(', ')', '%%', '[') act as regular-"
                   "expression operators - a reference whose path holds %%(replica)s no longer matches itself and is left uncompiled in the "
                   "command line, a step 'gen.a' also rewrites 'gen-a'" % (q, bad, short(c.func, 20)),
                   construct="%s: %s(<pattern>)" % (q.split(".")[-1], source.src(c.func)), trivial=bad is None)
    for st in d.tree.body:
        for c in [x for x in ast.walk(st) if isinstance(x, ast.Call)] if not isinstance(st, (ast.FunctionDef, ast.ClassDef, ast.AsyncFunctionDef)) else []:
            if isinstance(c.func, ast.Attribute) and c.func.attr in REGEX_API and isinstance(c.func.value, ast.Name) and c.func.value.id == "re" and c.args:
                n += 1
    ctx.floor(RID, n, 10, "calls of the re module in dsl.py")


def check_producer_walk_terminates(ctx, d) -> None:
    """A work-list loop of ScopeStack that follows references from one scope to ANOTHER scope (it pushes the location of an object it
    looked up in self.scopes) walks a graph that a namespace can make cyclic (<a> consumes <b>, <b> consumes <a>): it needs a visited
    set - a collection it adds what it pops to and tests membership in before expanding.  (Work lists over the finite tree of one
    object need none and are not in scope.)"""
    RID = "C06.R11-loops-make-progress"
    n = 0
    for q, f in sorted(d.functions.items()):
        if not q.startswith("ScopeStack."):
            continue
        for w in source.walk_own(f):
            if not (isinstance(w, ast.While) and isinstance(w.test, ast.Name)):
                continue
            L = w.test.id
            pops = [c for c in ast.walk(w) if isinstance(c, ast.Call) and last_attr(c) == "pop" and isinstance(c.func.value, ast.Name) and c.func.value.id == L]
            pushes = [c for c in ast.walk(w) if isinstance(c, ast.Call) and last_attr(c) in ("append", "extend", "insert") and isinstance(c.func.value, ast.Name)
                      and c.func.value.id == L and c.args]
            scope_locals = {t.id for a in ast.walk(w) if isinstance(a, (ast.Assign, ast.AnnAssign)) and getattr(a, "value", None) is not None
                            and any(isinstance(x, ast.Attribute) and x.attr == "scopes" for x in ast.walk(a.value))
                            for t in (a.targets if isinstance(a, ast.Assign) else [a.target]) if isinstance(t, ast.Name)}
            follows = [c for c in pushes if any(isinstance(x, ast.Name) and x.id in scope_locals for x in ast.walk(c.args[-1]))]
            if not (pops and follows):
                continue
            n += 1
            ctx.analysed(f)
            added = {c.func.value.id for c in ast.walk(w) if isinstance(c, ast.Call) and last_attr(c) in ("add", "append") and isinstance(c.func.value, ast.Name)
                     and c.func.value.id != L}
            tested = {x.id for t in ast.walk(w) if isinstance(t, ast.Compare) and isinstance(t.ops[0], (ast.In, ast.NotIn))
                      for x in ast.walk(t.comparators[0]) if isinstance(x, ast.Name)}
            visited = added & tested
            ctx.ob(RID, w, bool(visited),
                   "the walk over the producers keeps a visited set (%s)" % ", ".join(sorted(visited)) if visited else
                   "%s follows references from scope to scope with a work list (%s) but keeps no visited set: two steps that consume from each other "
                   "make the walk push the same two locations for ever - namespace_to_flowir never returns instead of rejecting the namespace"
                   % (q, L), construct="%s: work list over producers <- visited set" % q.split(".")[-1])
    ctx.floor(RID, n, 1, "work-list loops of ScopeStack that follow references between scopes")


def check_user_variables_override_entrypoint(ctx) -> None:
    """The arguments handed to the compiler as overrides of the entrypoint are (entrypoint arguments) THEN (the user's variables): the
    user's values come last in the layering - as the last update() of a copy, or as the last '**' of a dictionary display."""
    RID = "C06.R16-user-variables-override-the-entrypoint"
    confm = ctx.repo.module("python/experiment/model/conf.py")
    init = confm.func("DSLExperimentConfiguration.__init__")
    ctx.analysed(init)
    calls = [c for c in source.calls_in(init) if last_attr(c) == "namespace_to_flowir"]
    ctx.require(bool(calls), "anchor missing: namespace_to_flowir(..) in DSLExperimentConfiguration.__init__")
    user_locals = set(match.locals_where(init, lambda v: isinstance(v, ast.Call) and last_attr(v) == "layer_many_variable_files"))
    ctx.require(bool(user_locals), "anchor missing: <local> = layer_many_variable_files(..) in DSLExperimentConfiguration.__init__")

    def is_user(e: ast.AST) -> bool:
        return any(isinstance(x, ast.Name) and x.id in user_locals for x in ast.walk(e))

    def is_entry(e: ast.AST) -> bool:
        return any(isinstance(x, ast.Attribute) and x.attr in ("entrypoint", "args") for x in ast.walk(e))
    n = 0
    for c in calls:
        ov = next((k.value for k in c.keywords if k.arg == "override_entrypoint_args"), None)
        if not isinstance(ov, ast.Name):
            continue
        layers = []          # in the order they are applied
        for st in sorted([x for x in source.walk_own(init) if isinstance(x, (ast.Assign, ast.Expr))], key=lambda x: x.lineno):
            if isinstance(st, ast.Assign) and any(isinstance(t, ast.Name) and t.id == ov.id for t in st.targets):
                v = st.value
                if isinstance(v, ast.Constant) and v.value is None:
                    continue
                if isinstance(v, ast.Dict) and all(k is None for k in v.keys):
                    layers = list(v.values)
                elif isinstance(v, ast.Call) and last_attr(v) in ("copy", "dict", "deepcopy"):
                    layers = [v]
                else:
                    layers = [v]
            elif isinstance(st, ast.Expr) and isinstance(st.value, ast.Call) and last_attr(st.value) == "update" \
                    and isinstance(st.value.func.value, ast.Name) and st.value.func.value.id == ov.id and st.value.args:
                layers.append(st.value.args[0])
        if not layers:
            continue
        n += 1
        ok = is_user(layers[-1]) and not any(is_user(l) for l in layers[:-1]) and any(is_entry(l) for l in layers[:-1])
        ctx.ob(RID, c, ok,
               "the user's variables are layered last over the entrypoint's own arguments" if ok else
               "the overrides of the entrypoint are layered as [%s]: the user's variables are not the LAST layer, so a parameter that the "
               "entrypoint sets explicitly keeps the entrypoint's value although a variable file overrides it - the stale value is forwarded "
               "down the call chain and substituted into the components" % ", ".join(short(l, 40) for l in layers),
               construct="override_entrypoint_args = entrypoint args, then user variables")
    ctx.floor(RID, n, 1, "constructions of the entrypoint overrides in DSLExperimentConfiguration.__init__")
    # the compiler's side of the same layering (seed C06-13): where a function of dsl.py folds its `override_entrypoint_args` parameter into
    # a dictionary, no update of that dictionary from the entrypoint's own arguments can follow it
    dm = ctx.repo.module("python/experiment/model/frontends/dsl.py")
    n2 = 0
    for q, f in dm.functions.items():
        if "override_entrypoint_args" not in [a.arg for a in f.args.args + f.args.kwonlyargs]:
            continue
        ups = [c for c in source.calls_in(f) if last_attr(c) == "update" and isinstance(c.func.value, ast.Name) and c.args]
        ov_ups = [c for c in ups if any(isinstance(x, ast.Name) and x.id == "override_entrypoint_args" for x in ast.walk(match.resolve_local(f, c.args[0])))]
        if not ov_ups:
            continue
        cfg = CFG(f)

        def node_of(c):
            return next((nd for nd in cfg.nodes if nd.ast is not None and nd.kind in ("stmt", "test") and any(c is x for x in ast.walk(nd.ast))), None)
        for u in ov_ups:
            n2 += 1
            un = node_of(u)
            ctx.require(un is not None, "cannot locate the CFG node of %s" % short(u, 60))
            after = cfg.reach([un], include_starts=False)
            late = [e for e in ups if e is not u and e.func.value.id == u.func.value.id
                    and any(isinstance(x, ast.Attribute) and x.attr == "entrypoint" for x in ast.walk(match.resolve_local(f, e.args[0])))
                    and node_of(e) is not None and node_of(e).id in after]
            ctx.ob(RID, late[0] if late else u, not late,
                   "%s lays override_entrypoint_args over the entrypoint's own arguments (nothing from the entrypoint is applied afterwards)"
                   % q.split(".")[-1] if not late else
                   "%s applies the entrypoint's own arguments (%s) AFTER override_entrypoint_args: a parameter that the entrypoint sets explicitly "
                   "keeps the entrypoint's value although the caller (the user's variable files, through DSLExperimentConfiguration) overrides it"
                   % (q.split(".")[-1], short(late[0], 60)),
                   construct="%s: override_entrypoint_args is the last layer of %s" % (q.split(".")[-1], u.func.value.id))
    ctx.require(n2 >= 1, "anchor missing: no function of dsl.py folds override_entrypoint_args into a dictionary with update()")


def check_split_full_prefix(ctx, d) -> None:
    """R6, full prefix: a scope becomes the candidate of split() only when ALL of its elements matched the reference."""
    sp = d.func("OutputReference.split")
    cfg = CFG(sp)
    loops_ = [n for n in source.walk_own(sp) if isinstance(n, ast.For) and isinstance(n.iter, ast.Name)]
    if not loops_:
        return
    cand = loops_[0].target.id if isinstance(loops_[0].target, ast.Name) else None
    picks = [n for n in cfg.nodes if n.kind == "stmt" and isinstance(n.ast, ast.Assign) and isinstance(n.ast.value, ast.Name) and n.ast.value.id == cand]
    if not picks:
        return      # another shape (e.g. slice equality): R6's other obligations decide
    # counters that are incremented in the element-wise loop
    counters = {n.target.id for n in ast.walk(sp) if isinstance(n, ast.AugAssign) and isinstance(n.target, ast.Name)}
    if not counters:
        return      # no element-counting loop: the scope is matched as a whole (slice equality, terminated prefix), decided above

    def full_label(t: ast.AST) -> Optional[str]:
        cp = match.compare_parts(t)
        if not cp or not isinstance(cp[1], (ast.Eq, ast.NotEq)):
            return None
        for a_, b_ in ((cp[0], cp[2]), (cp[2], cp[0])):
            if isinstance(a_, ast.Name) and a_.id in counters and isinstance(b_, ast.Call) and call_name(b_) == "len" and b_.args \
                    and isinstance(b_.args[0], ast.Name) and b_.args[0].id == cand:
                return "T" if isinstance(cp[1], ast.Eq) else "F"
        return None
    full_tests = match.test_nodes(cfg, full_label)
    for pk in picks:
        in_for_else = any(isinstance(a_, ast.For) and any(pk.ast is x for st_ in a_.orelse for x in ast.walk(st_)) for a_ in source.ancestors(pk.ast))
        ok = in_for_else or (bool(full_tests) and match.only_via_edges(cfg, pk, full_tests))
        ctx.ob("C06.R6-scope-match-by-component", pk.ast, ok,
               "a scope is a candidate only when every one of its elements matched (it is a prefix of the reference)" if ok else
               "split() makes a scope the candidate by the number of leading equal elements even when the scope is not a prefix of the reference: "
               "'<entry-instance/wf/missing>/file.txt:ref' (no such step) is bound to another step of the same workflow instead of being "
               "rejected", construct="split: %s <- all elements of the scope matched" % short(pk.ast, 40))


def check_match_before_use(ctx, d) -> None:
    rule = "C06.R10-match-checked-before-use"
    MATCHERS = ("match", "fullmatch", "search")
    DEREF = ("group", "groupdict", "groups", "start", "end", "span")
    n_sites = 0
    for q, f in d.functions.items():
        if q.count(".") > 1 and False:
            continue
        mvars = {t.id for n in source.walk_own(f) if isinstance(n, ast.Assign) and isinstance(n.value, ast.Call)
                 and last_attr(n.value) in MATCHERS and not (call_name(n.value) or "").startswith("os.")
                 for t in n.targets if isinstance(t, ast.Name)}
        if not mvars:
            continue
        uses = [x for x in source.walk_own(f) if isinstance(x, ast.Call) and isinstance(x.func, ast.Attribute) and x.func.attr in DEREF
                and isinstance(x.func.value, ast.Name) and x.func.value.id in mvars]
        if not uses:
            continue
        cfg = CFG(f)
        ctx.analysed(f)
        for u in uses:
            var = u.func.value.id
            n_sites += 1
            nodes = [n for n in cfg.nodes if n.ast is not None and n.kind in ("stmt", "test", "for", "with") and not isinstance(n.ast, (ast.If, ast.While, ast.For, ast.Try, ast.With, ast.FunctionDef))
                     and any(u is x for x in ast.walk(n.ast))]
            if not nodes:
                continue

            def not_none_label(t: ast.AST, var=var) -> Optional[str]:
                if isinstance(t, ast.Name) and t.id == var:
                    return "T"
                if isinstance(t, ast.UnaryOp) and isinstance(t.op, ast.Not) and isinstance(t.operand, ast.Name) and t.operand.id == var:
                    return "F"
                cp = match.compare_parts(t)
                if cp and isinstance(cp[0], ast.Name) and cp[0].id == var and isinstance(cp[2], ast.Constant) and cp[2].value is None:
                    if isinstance(cp[1], (ast.IsNot, ast.NotEq)):
                        return "T"
                    if isinstance(cp[1], (ast.Is, ast.Eq)):
                        return "F"
                return None
            guards = match.test_nodes(cfg, not_none_label)
            # a use inside the same boolean expression after 'm and m.group()' is guarded by the atom order: those atoms are test nodes too
            ok = bool(guards) and all(match.only_via_edges(cfg, n, guards) for n in nodes)
            ctx.ob(rule, u, ok,
                   "%s is dereferenced only where it is not None" % var if ok else
                   "%s: %s is dereferenced although the match may have failed: the AttributeError leaves namespace_to_flowir as it is - e.g. a "
                   "component step called 'echo2' (step names may end in a digit, template names may not) - instead of a DSLInvalidError that "
                   "names the location" % (q, short(u, 40)), construct="%s: %s guarded by a None test" % (q, short(u, 40)))
    ctx.floor(rule, n_sites, 2, "dereferences of regular-expression match objects in dsl.py")


def check_loops_progress(ctx, d) -> None:
    from vlib import loops
    rule = "C06.R11-loops-make-progress"
    n_loops = 0
    for q, f in d.functions.items():
        ws = [w for w in source.walk_own(f) if isinstance(w, ast.While)]
        if not ws:
            continue
        n_loops += len(ws)
        ctx.analysed(f)
        stuck = loops.stuck_cycles(f)
        for (w, path) in stuck:
            lines = [getattr(x.ast, "lineno", None) for x in path if x.ast is not None]
            ctx.ob(rule, w, False,
                   "%s: the loop 'while %s' has a cycle (lines %s) on which no variable is updated in terms of itself, nothing is mutated and only "
                   "pure functions are called: once taken it is taken again for ever - namespace_to_flowir never returns (e.g. a parameter that "
                   "holds a reference to a Workflow instance)" % (q, short(w.test, 30), lines), construct="%s: while %s makes progress" % (q, short(w.test, 30)))
        if not stuck:
            for w in ws:
                ctx.ob(rule, w, True, "every cycle of 'while %s' changes something or calls something opaque" % short(w.test, 30),
                       construct="%s: while %s makes progress" % (q, short(w.test, 30)))
    ctx.floor(rule, n_loops, 3, "while loops in dsl.py")


def check_whole_string_value(ctx, d) -> None:
    """R12: a value keeps its type (int, dict ...) only when the reference is the WHOLE string it occurs in."""
    rule = "C06.R12-typed-value-only-for-a-whole-string-reference"
    n = 0
    for q, f in d.functions.items():
        # substituters: functions that splice a value into a string by match span,  what[:m.start()] + v + what[m.end():]
        splices = [a for a in source.walk_own(f) if isinstance(a, ast.Assign) and isinstance(a.value, ast.BinOp) and any(
            isinstance(x, ast.Subscript) and isinstance(x.slice, ast.Slice) and any(
                isinstance(c, ast.Call) and last_attr(c) in ("start", "end") for c in ast.walk(x.slice)) for x in ast.walk(a.value))]
        if not splices:
            continue
        subject = splices[0].targets[0].id if isinstance(splices[0].targets[0], ast.Name) else None
        cfg = CFG(f)

        def atoms_of(e: ast.AST) -> Set[str]:
            """which facts a TRUE e guarantees: 'start0' (<m>.start() == 0), 'endlen' (<m>.end() == len(<subject>))"""
            if isinstance(e, ast.Name):
                e2 = match.resolve_local(f, e)
                return atoms_of(e2) if e2 is not e else set()
            if isinstance(e, ast.BoolOp) and isinstance(e.op, ast.And):
                out: Set[str] = set()
                for v in e.values:
                    out |= atoms_of(v)
                return out
            cp = match.compare_parts(e)
            if cp and isinstance(cp[1], ast.Eq):
                for a, b in ((cp[0], cp[2]), (cp[2], cp[0])):
                    if isinstance(a, ast.Call) and last_attr(a) == "start" and not a.args and isinstance(b, ast.Constant) and b.value == 0 \
                            and not isinstance(b.value, bool):
                        return {"start0"}
                    if isinstance(a, ast.Call) and last_attr(a) == "end" and not a.args and isinstance(b, ast.Call) and call_name(b) == "len" \
                            and b.args and isinstance(b.args[0], ast.Name) and b.args[0].id == subject:
                        return {"endlen"}
            return set()
        # returns of something that is not the spliced string: the value itself
        raw_returns = [nd for nd in cfg.nodes if nd.kind == "stmt" and isinstance(nd.ast, ast.Return) and isinstance(nd.ast.value, ast.Name)
                       and nd.ast.value.id != subject]
        if not raw_returns:
            continue
        ctx.analysed(f)
        for rn in raw_returns:
            n += 1
            missing = []
            for need in ("start0", "endlen"):
                edges = []
                for tn in cfg.nodes:
                    if tn.kind == "test" and tn.ast is not None:
                        inner, flip = tn.ast, False
                        while isinstance(inner, ast.UnaryOp) and isinstance(inner.op, ast.Not):
                            inner, flip = inner.operand, not flip
                        if need in atoms_of(inner):
                            edges.append((tn, "F" if flip else "T"))
                if not edges or not match.only_via_edges(cfg, rn, edges):
                    missing.append(need)
            ok = not missing
            ctx.ob(rule, rn.ast, ok,
                   "%s returns the value itself only when the reference starts at offset 0 and ends at the end of the string" % q if ok else
                   "%s returns the parameter's value itself (keeping its type) without establishing that the reference %s: for "
                   "'%%(tag)s%%(count)s' with count: 3 the second reference 'is all that is left' after the first substitution, the function "
                   "returns the number 3 and drops 'run' - the argument supplied along the call chain is not what the step receives (and a "
                   "dictionary glued to other text is accepted instead of rejected)" % (
                       q, " and ".join({"start0": "starts at offset 0 of the string", "endlen": "ends at the end of the string"}[m_] for m_ in missing)),
                   construct="%s: return %s <- whole-string reference" % (q, rn.ast.value.id))
    ctx.floor(rule, n, 2, "returns of a typed parameter value in the span-substituting helpers of dsl.py")


def check_substitution_traverses_dictionaries(ctx, d) -> None:
    """R14: the existence check of parameter references looks inside dictionary values; the substitution must too."""
    rule = "C06.R14-substitution-reaches-into-dictionaries"
    rp = d.functions.get("replace_parameter_references")
    ctx.require(rp is not None, "anchor missing: replace_parameter_references in dsl.py")
    ctx.analysed(rp)
    # does the validator descend into dictionaries?  (a function that discovers references and iterates .items()/.values() of a dict value)
    # the validator of dsl.py calls a discover_references* helper (here or in flowir.py) on the argument values
    fl_mod = ctx.repo.module("python/experiment/model/frontends/flowir.py")
    used = {last_attr(c) for f in d.functions.values() for c in source.calls_in(f) if (last_attr(c) or "").startswith("discover_references")}
    validators = []
    for mod in (d, fl_mod):
        for q, f in mod.functions.items():
            if q.split(".")[-1] in used and any(
                    isinstance(t, ast.Call) and call_name(t) == "isinstance" and len(t.args) == 2 and "dict" in source.src(t.args[1]) for t in ast.walk(f)):
                validators.append(q)
    # does the substitution?  a dict test whose true side recurses (a call of the function itself / of the per-string helper per value)
    recurses = any(isinstance(t, ast.Call) and call_name(t) == "isinstance" and len(t.args) == 2 and "dict" in source.src(t.args[1])
                   and isinstance(iff, ast.If) and any(isinstance(c, ast.Call) and call_name(c) in ("replace_parameter_references", "_replace_many_parameter_references")
                                                      for st in iff.body for c in ast.walk(st))
                   for iff in source.walk_own(rp) if isinstance(iff, ast.If) for t in ast.walk(iff.test))
    ok = recurses or not validators
    ctx.ob(rule, rp, ok,
           "replace_parameter_references substitutes inside dictionary values as well" if recurses else
           ("no validator descends into dictionaries" if ok else
            "the existence check of parameter references (%s) looks inside dictionary-valued arguments, replace_parameter_references stops at a "
            "dictionary: args {env: {GREETING: '%%(greeting)s'}} keeps the reference, it reaches the FlowIR environment unresolved and is later "
            "resolved against the entry workflow's global variable instead of the argument supplied along the call chain" % ", ".join(validators)),
           construct="replace_parameter_references: dictionary values are substituted too")


    # the converse (defect e6ed940): once the substitution looks inside dictionaries, the check that an argument only references parameters
    # of the PARENT has to look there too - otherwise a reference it never saw sends the substitution past the root scope (KeyError(()))
    def is_dict_test(t: ast.AST) -> bool:
        return isinstance(t, ast.Call) and call_name(t) == "isinstance" and len(t.args) == 2 and "dict" in source.src(t.args[1])
    n_chk = 0
    for q, f in d.functions.items():
        if q.count(".") > 1:
            continue
        for lp in [x for x in source.walk_own(f, include_nested=False) if isinstance(x, ast.For)]:
            it = lp.iter
            if not (isinstance(it, ast.Call) and last_attr(it) == "items" and isinstance(it.func.value, ast.Attribute) and it.func.value.attr == "parameters"):
                continue
            finds = [c for c in ast.walk(lp) if isinstance(c, ast.Call) and last_attr(c) in ("findall", "finditer")]
            parent_words = any(isinstance(x, ast.Constant) and isinstance(x.value, str) and "parent" in x.value for x in ast.walk(lp))
            if not finds or not parent_words:
                continue
            n_chk += 1
            helpers = {last_attr(c) or call_name(c) for c in ast.walk(lp) if isinstance(c, ast.Call)}
            nested = [g for g in ast.walk(f) if isinstance(g, ast.FunctionDef) and g is not f and g.name in helpers]
            looks = any(is_dict_test(t) for t in ast.walk(lp)) or any(is_dict_test(t) for g in nested for t in ast.walk(g))
            ok = looks or not recurses
            ctx.ob(rule, lp, ok,
                   "the parent-parameter check of %s reaches the strings inside dictionary-valued arguments" % q.split(".")[-1] if looks else
                   ("neither the check nor the substitution looks inside dictionaries" if ok else
                    "replace_parameter_references substitutes inside dictionary-valued arguments, but the check in %s that an argument references "
                    "only parameters of its parent looks at string arguments alone: args {env: {FOO: '%%(bar)s'}} with no parameter 'bar' in the "
                    "parent passes it, the substitution walks past the root scope and namespace_to_flowir ends with KeyError(()) instead of a "
                    "located DSLInvalidError" % q.split(".")[-1]),
                   construct="%s: parent-parameter check covers dictionary values" % q.split(".")[-1])
    ctx.require(n_chk >= 1, "anchor missing: the loop that checks an argument's references against the parameters of the parent")
    # and the environment a component template spells out itself is registered with its parameter references resolved (defect ad80624)
    dg = d.functions.get("digest_dsl_component")
    ctx.require(dg is not None, "anchor missing: digest_dsl_component in dsl.py")
    ctx.analysed(dg)
    handed = [k.value for c in source.calls_in(dg) if call_name(c) == "ComponentFlowIR" for k in c.keywords if k.arg == "environment"]
    env_names = {h.id for h in handed if isinstance(h, ast.Name)}
    ctx.require(bool(env_names), "anchor missing: ComponentFlowIR(environment=<local>) in digest_dsl_component")
    raw_names = set(match.locals_where(dg, lambda v: (dotted(v) or "").endswith("command.environment")))
    ctx.require(bool(raw_names), "anchor missing: <local> = scope.template.command.environment in digest_dsl_component")
    gcfg = CFG(dg)
    for rn in sorted(raw_names):
        defs = [n for n in gcfg.nodes if n.kind == "stmt" and isinstance(n.ast, ast.Assign) and any(isinstance(t, ast.Name) and t.id == rn for t in n.ast.targets)]
        raw_defs = [n for n in defs if (dotted(n.ast.value) or "").endswith("command.environment")]
        others = [n for n in defs if n not in raw_defs]
        aliases = [n for n in gcfg.nodes if n.kind == "stmt" and isinstance(n.ast, ast.Assign) and isinstance(n.ast.value, ast.Name) and n.ast.value.id == rn
                   and any(isinstance(t, ast.Name) and t.id in env_names for t in n.ast.targets)]
        # the raw dictionary of the template reaches `environment = <local>` on a path that never replaced the local and that takes the
        # tests of `isinstance(<local>, dict)` consistently
        stable = ["isinstance(%s, dict)" % rn]
        reach = match.reach_consistent(gcfg, raw_defs, stable, blocked=others)
        for al in aliases:
            # ... and is a dictionary there (the alias sits on the true side of the dict test, or no test at all)
            dict_side = [(t, "T") for t in gcfg.nodes if t.kind == "test" and t.ast is not None and source.src(t.ast) == stable[0]]
            is_dict_here = not dict_side or match.only_via_edges(gcfg, al, dict_side)
            raw = al.id in reach and is_dict_here
            ctx.ob(rule, al.ast, not raw,
                   "a dictionary the template spells out is resolved with replace_parameter_references before it becomes the environment of the instance"
                   if not raw else
                   "digest_dsl_component registers the dictionary of the TEMPLATE (%s) as the environment of the instance without resolving the "
                   "component's parameters in its values: environment {FOO: '%%(foo)s'} reaches FlowIR unresolved and two instances of the template "
                   "with different arguments share one environment" % rn,
                   construct="digest_dsl_component: %s" % short(al.ast, 60))
        ctx.require(bool(aliases) or any(isinstance(st.value, ast.Call) for st in source.walk_own(dg) if isinstance(st, ast.Assign) and any(
            isinstance(t, ast.Name) and t.id in env_names for t in st.targets)), "C06.R14: digest_dsl_component builds the environment in a form the rule does not know")


def check_resolution_does_not_write_into_templates(ctx, d) -> None:
    """R14 (seed C06-15): the values an instance resolves are its own.  replace_parameter_references may resolve a dictionary in place
    only if nothing it is handed is shared between instances - and digest_dsl_component hands it the literal command.environment of the
    instance's TEMPLATE.  So: either the resolver builds new containers, or Scope.__init__ takes a deep copy of the template."""
    rule = "C06.R14-substitution-reaches-into-dictionaries"
    rp = d.functions.get("replace_parameter_references")
    params = [a.arg for a in rp.args.args + rp.args.kwonlyargs]
    inplace = [st for st in source.walk_own(rp) if isinstance(st, (ast.Assign, ast.AugAssign)) and any(
        isinstance(t, ast.Subscript) and isinstance(t.value, ast.Name) and t.value.id in params
        for t in (st.targets if isinstance(st, ast.Assign) else [st.target]))]
    inplace += [c for c in source.calls_in(rp) if last_attr(c) in ("update", "setdefault", "pop", "clear") and isinstance(c.func, ast.Attribute)
                and isinstance(c.func.value, ast.Name) and c.func.value.id in params]
    init = d.functions.get("ScopeStack.Scope.__init__")
    ctx.require(init is not None, "anchor missing: ScopeStack.Scope.__init__")
    ctx.analysed(init)
    tpl = [st for st in source.walk_own(init) if isinstance(st, (ast.Assign, ast.AnnAssign)) and any(
        isinstance(t, ast.Attribute) and t.attr == "template" for t in (st.targets if isinstance(st, ast.Assign) else [st.target]))]
    ctx.require(bool(tpl), "anchor missing: self.template = .. in ScopeStack.Scope.__init__")
    v = tpl[0].value
    deep = isinstance(v, ast.Call) and ((call_name(v) or "").split(".")[-1] in ("deepcopy", "deep_copy") or any(
        k.arg == "deep" and isinstance(k.value, ast.Constant) and k.value.value is True for k in v.keywords))
    ok = deep or not inplace
    ctx.ob(rule, inplace[0] if (inplace and not deep) else tpl[0], ok,
           ("every instance works on a deep copy of its template" if deep else "replace_parameter_references builds new containers, it never writes into its argument") if ok else
           "replace_parameter_references resolves a dictionary IN PLACE (%s) and ScopeStack.Scope keeps a shallow copy of its template (%s): the literal "
           "command.environment of a component template is then shared by all its instances, the first instance digested writes its argument values "
           "into it and every later instance finds no '%%(param)s' left - it gets the first instance's environment, under the same name"
           % (short(inplace[0], 50), short(v, 40)),
           construct="instances resolve private values (deep template copy, or a resolver that builds new containers)")


def check_first_element_access(ctx, d) -> None:
    """R13: <obj>.<list field that may be empty>[0] is read only where the list was tested to be non-empty (or the empty case recorded an
    error that is raised before the read)."""
    rule = "C06.R13-first-element-of-a-possibly-empty-field"
    # list fields of the schema classes whose default is the empty list
    empty_default: Set[str] = set()
    for cls in ast.walk(d.tree):
        if isinstance(cls, ast.ClassDef):
            for st in cls.body:
                if isinstance(st, ast.AnnAssign) and isinstance(st.target, ast.Name) and "List" in source.src(st.annotation) and isinstance(st.value, ast.Call):
                    dflt = list(st.value.args[:1]) + [k.value for k in st.value.keywords if k.arg == "default"]
                    if any(isinstance(x, ast.List) and not x.elts for x in dflt):
                        empty_default.add(st.target.id)
    n = 0
    for q, f in d.functions.items():
        reads = [x for x in source.walk_own(f) if isinstance(x, ast.Subscript) and isinstance(x.slice, ast.Constant) and x.slice.value == 0
                 and isinstance(x.value, ast.Attribute) and x.value.attr in empty_default and isinstance(x.ctx, ast.Load)]
        if not reads:
            continue
        cfg = CFG(f)
        ctx.analysed(f)
        for rd in reads:
            n += 1
            subj = source.src(rd.value)
            at = [nd for nd in cfg.nodes if nd.ast is not None and nd.kind in ("stmt", "test", "for", "with") and any(x is rd for x in ast.walk(nd.ast))
                  and not isinstance(nd.ast, (ast.FunctionDef, ast.ClassDef))]

            def empty_label(t: ast.AST) -> Optional[str]:
                flip = False
                while isinstance(t, ast.UnaryOp) and isinstance(t.op, ast.Not):
                    t, flip = t.operand, not flip
                if source.src(t) == subj:
                    return "T" if flip else "F"
                cp = match.compare_parts(t)
                if cp and isinstance(cp[0], ast.Call) and call_name(cp[0]) == "len" and cp[0].args and source.src(cp[0].args[0]) == subj \
                        and isinstance(cp[2], ast.Constant) and cp[2].value == 0:
                    lab = "T" if isinstance(cp[1], ast.Eq) else "F" if isinstance(cp[1], (ast.Gt, ast.NotEq)) else None
                    return None if lab is None else (match.other(lab) if flip else lab)
                return None
            tests = match.test_nodes(cfg, empty_label)
            ok = bool(at) and bool(tests) and all(match.only_via_edges(cfg, a_, [(t, match.other(lab)) for (t, lab) in tests]) for a_ in at)
            if not ok and at and tests:
                # the empty side records an error in a collection, and the read is only reached on the side of a later test of that
                # collection where nothing was recorded (whose other side cannot reach the read: it raises)
                for (t, lab) in tests:
                    region = cfg.reach([m for (m, l2) in t.succ if l2 == lab], blocked=at)
                    recorded = {source.src(c.func.value) for nd in cfg.nodes if nd.id in region and nd.ast is not None and nd.kind == "stmt"
                                for c in own_calls(nd.ast) if last_attr(c) in ("append", "extend")}
                    gates = [(g, "F") for g in cfg.nodes if g.kind == "test" and g.ast is not None and source.src(g.ast) in recorded
                             and not any(a_.id in cfg.reach([m for (m, l2) in g.succ if l2 == "T"]) for a_ in at)]
                    if recorded and gates and all(match.only_via_edges(cfg, a_, gates) for a_ in at):
                        ok = True
            ctx.ob(rule, rd, ok,
                   "%s reads %s[0] only where the list is known not to be empty (or the empty case was reported and raised first)" % (q, subj) if ok else
                   "%s reads %s[0] although the schema lets the list be empty and no test of it precedes the read: a namespace with an empty "
                   "'%s' leaves the compiler with IndexError instead of a DSLInvalidError that names the location" % (q, subj, rd.value.attr),
                   construct="%s: %s[0] <- not empty" % (q, subj))
    ctx.floor(rule, n, 1, "reads of the first element of a schema list that may be empty")


def check_ancestor_chain(ctx, d) -> None:
    """R9: what _check_for_cycle reads must mean 'the scopes that are open right now'."""
    rule = "C06.R9-ancestor-chain-is-balanced"
    cyc = d.func("ScopeStack._check_for_cycle")
    ent = d.func("ScopeStack.enter")
    ext = d.func("ScopeStack.exit")
    for f in (cyc, ent, ext):
        ctx.analysed(f)

    def self_attrs_read(f) -> Set[str]:
        return {x.attr for x in ast.walk(f) if isinstance(x, ast.Attribute) and isinstance(x.value, ast.Name) and x.value.id == "self"
                and isinstance(x.ctx, ast.Load) and not isinstance(source.parent(x), ast.Call)}
    read = {a for a in self_attrs_read(cyc) if a not in ("log",)}
    ctx.require(bool(read), "anchor missing: the container _check_for_cycle reads")

    def mutations(f, attr: str):
        out = []
        for c in ast.walk(f):
            if isinstance(c, ast.Call) and isinstance(c.func, ast.Attribute) and isinstance(c.func.value, ast.Attribute) \
                    and isinstance(c.func.value.value, ast.Name) and c.func.value.value.id == "self" and c.func.value.attr == attr:
                out.append((c.func.attr, c.args[0] if c.args else None, c))
            if isinstance(c, ast.Assign):
                for t in c.targets:
                    if isinstance(t, ast.Subscript) and isinstance(t.value, ast.Attribute) and isinstance(t.value.value, ast.Name) \
                            and t.value.value.id == "self" and t.value.attr == attr:
                        out.append(("setitem", t.slice, c))
            if isinstance(c, ast.Delete):
                for t in c.targets:
                    if isinstance(t, ast.Subscript) and isinstance(t.value, ast.Attribute) and getattr(t.value.value, "id", None) == "self" and t.value.attr == attr:
                        out.append(("delitem", t.slice, c))
        return out
    # the scope object of enter() and the constructor keywords that tie its fields to enter()'s parameters
    scope_ctor = next((n for n in ast.walk(ent) if isinstance(n, ast.Assign) and isinstance(n.value, ast.Call)
                       and (call_name(n.value) or "").endswith("Scope") and isinstance(n.targets[0], ast.Name)), None)
    field_of_param = {}
    scope_var = None
    if scope_ctor is not None:
        scope_var = scope_ctor.targets[0].id
        for k in scope_ctor.value.keywords:
            if isinstance(k.value, ast.Name):
                field_of_param[k.value.id] = k.arg

    def path_in_enter(e: ast.AST):
        """attribute path of e relative to the scope being entered"""
        parts = []
        while isinstance(e, ast.Attribute):
            parts.append(e.attr)
            e = e.value
        if isinstance(e, ast.Name):
            if e.id == scope_var:
                return tuple(reversed(parts))
            if e.id in field_of_param:
                return (field_of_param[e.id],) + tuple(reversed(parts))
        return None

    def path_in_exit(e: ast.AST, popped: Set[str]):
        parts = []
        while isinstance(e, ast.Attribute):
            parts.append(e.attr)
            e = e.value
        if isinstance(e, ast.Name) and e.id in popped:
            return tuple(reversed(parts))
        return None
    popped = {t.id for n in ast.walk(ext) if isinstance(n, ast.Assign) and isinstance(n.value, ast.Call) and last_attr(n.value) == "pop"
              for t in n.targets if isinstance(t, ast.Name)}
    # a property of Scope may rename a field (Scope.name -> location[-1]); compare through the spelling only - a renamed equivalent is
    # reported, which is the safe side
    for attr in sorted(read):
        grow = [m for m in mutations(ent, attr) if m[0] in ("append", "add", "setitem", "insert", "update", "setdefault")]
        shrink = [m for m in mutations(ext, attr) if m[0] in ("pop", "remove", "discard", "delitem", "clear")]
        if not grow and not shrink:
            ctx.ob(rule, cyc, False, "_check_for_cycle decides from self.%s, which enter()/exit() do not maintain" % attr,
                   construct="self.%s is maintained by enter/exit" % attr)
            continue
        for (kind, key, node) in grow:
            if kind == "append":
                ok = any(k2 == "pop" and (a2 is None or (isinstance(a2, ast.UnaryOp) and isinstance(a2.operand, ast.Constant) and a2.operand.value == 1))
                         for (k2, a2, _) in shrink)
                ctx.ob(rule, node, ok, "self.%s is a stack: enter() appends, exit() pops the last entry" % attr if ok else
                       "enter() appends to self.%s but exit() does not pop the last entry: the chain of open scopes is wrong after the first exit" % attr,
                       construct="self.%s: append <-> pop" % attr)
            else:
                kp = path_in_enter(key) if key is not None else None
                matches = [path_in_exit(a2, popped) for (k2, a2, _) in shrink if a2 is not None]
                ok = kp is not None and kp in matches
                ctx.ob(rule, node, ok,
                       "self.%s: exit() removes the key that enter() added for the same scope (%s)" % (attr, ".".join(kp or ())) if ok else
                       "enter() records %s in self.%s but exit() removes %s: the entry of a scope is not cleared when the scope is left (unless two "
                       "different names happen to coincide), so self.%s no longer means 'the scopes that are open now' - a template that is "
                       "instantiated under two different parents is reported as a cycle although the namespace is acyclic"
                       % (short(key, 40) if key is not None else "?", attr,
                          ", ".join(short(a2, 30) for (_, a2, _) in shrink if a2 is not None) or "nothing", attr),
                       construct="self.%s: key added by enter() == key removed by exit()" % attr)
    ctx.floor(rule, len(read), 1, "containers read by the cycle detector")


def check_recorded_errors_are_read(ctx, d) -> None:
    """R17: a constructor that records an error into a list PARAMETER after it stored that list on the object relies on the attribute being
    the same list.  When the attribute is a copy (list(P), P[:], copy) - or not stored at all - and every caller throws its own list away
    after the call (a literal, or a local it never reads again), the error is recorded where nobody reads it: the invalid namespace is
    accepted.  (ComponentFlowIR: 'Replicating components cannot define a parameter called "replica"'.)"""
    RID = "C06.R17-recorded-errors-are-read"

    def builds_error(e: ast.AST) -> bool:
        return any(isinstance(x, ast.Call) and (call_name(x) or "").split(".")[-1].endswith(("Error", "Exception")) for x in ast.walk(e))
    n_sinks = 0
    for cname, cls in d.classes.items():
        init = next((f for f in cls.body if isinstance(f, ast.FunctionDef) and f.name == "__init__"), None)
        if init is None:
            continue
        params = [a.arg for a in init.args.args[1:]] + [a.arg for a in init.args.kwonlyargs]
        for P in params:
            recs = [c for c in source.calls_in(init, include_nested=False) if last_attr(c) in ("append", "extend", "insert")
                    and isinstance(c.func.value, ast.Name) and c.func.value.id == P and c.args and builds_error(c.args[-1])]
            if not recs:
                continue
            n_sinks += 1
            ctx.analysed(init)
            rebinds = [n for n in source.walk_own(init) if isinstance(n, ast.Assign) and any(isinstance(t, ast.Name) and t.id == P for t in n.targets)]
            aliased = not rebinds and any(isinstance(n, ast.Assign) and isinstance(n.value, ast.Name) and n.value.id == P and any(
                isinstance(t, ast.Attribute) and isinstance(t.value, ast.Name) and t.value.id == "self" for t in n.targets)
                for n in source.walk_own(init))
            if aliased:
                ctx.ob(RID, recs[0], True, "%s.__init__ records errors into '%s', which the object keeps as it is (same list)" % (cname, P),
                       construct="%s.__init__: errors recorded into %s are kept by the object" % (cname, P))
                continue
            # not kept as it is: does any caller read its own list after the call?
            live = False
            n_calls = 0
            for q, f in d.functions.items():
                calls = [c for c in source.calls_in(f, include_nested=False) if (call_name(c) or "").split(".")[-1] == cname.split(".")[-1]]
                if not calls:
                    continue
                cfg = CFG(f)
                for c in calls:
                    n_calls += 1
                    arg = next((k.value for k in c.keywords if k.arg == P), None)
                    if arg is None and params.index(P) < len(c.args):
                        arg = c.args[params.index(P)]
                    if not isinstance(arg, ast.Name):
                        continue
                    node = next((n for n in cfg.nodes if n.ast is not None and any(c is x for x in ast.walk(n.ast))), None)
                    if node is None:
                        live = True
                        continue
                    after = cfg.reach([node], include_starts=False)
                    for n in cfg.nodes:
                        if n.id in after and n.ast is not None and n is not node and any(
                                isinstance(x, ast.Name) and x.id == arg.id and isinstance(x.ctx, ast.Load) for x in ast.walk(n.ast)):
                            live = True
            ok = live or n_calls == 0
            ctx.ob(RID, recs[0], ok,
                   "%s.__init__ records errors into '%s' and a caller reads that list after the call" % (cname, P) if ok else
                   "%s.__init__ records an error into its parameter '%s' (%s) but keeps only a copy of / nothing of that list on the object, and "
                   "every caller drops its own list after the call: the error is recorded where nobody reads it, so an invalid namespace - a "
                   "replicating component that declares a parameter called \"replica\" - is accepted and its %%(replica)s stays unresolved"
                   % (cname, P, short(recs[0], 60)),
                   construct="%s.__init__: errors recorded into %s are kept by the object" % (cname, P))
    ctx.ob(RID, d.tree, True, "%d constructors of dsl.py record errors into a list parameter (the pattern may legitimately disappear)" % n_sinks,
           construct="constructors of dsl.py recording errors into a parameter", trivial=True)


def check_identity_keys_use_printed_values(ctx, d) -> None:
    """R18: a helper whose result keys the table of known environments builds that key from the PRINTED form of the values.  Raw values
    compare with Python's equality - 1 == True == 1.0, 0 == False - so {USE_GPU: true} and {USE_GPU: 1} would be one environment and the
    component visited second is bound to the environment another call chain supplied."""
    from checks.c15 import mapping_key_helpers
    RID = "C06.R18-identity-keys-use-printed-values"
    n = 0
    for (q, kf, helper) in mapping_key_helpers(d):
        params = {a.arg for a in helper.args.args}
        if not params:
            continue
        # the values of the parameter: <param>[k] / the second variable of a loop over <param>.items() / <param>.values()
        value_vars: Set[str] = set()
        for x in ast.walk(helper):
            gens = []
            if isinstance(x, ast.For):
                gens.append((x.target, x.iter))
            if isinstance(x, (ast.GeneratorExp, ast.ListComp, ast.SetComp, ast.DictComp)):
                gens.extend((g.target, g.iter) for g in x.generators)
            for tgt, it in gens:
                base = it.args[0] if isinstance(it, ast.Call) and call_name(it) == "sorted" and it.args else it
                if isinstance(base, ast.Call) and isinstance(base.func, ast.Attribute) and isinstance(base.func.value, ast.Name) and base.func.value.id in params:
                    if base.func.attr == "items" and isinstance(tgt, ast.Tuple) and len(tgt.elts) == 2 and isinstance(tgt.elts[1], ast.Name):
                        value_vars.add(tgt.elts[1].id)
                    if base.func.attr == "values" and isinstance(tgt, ast.Name):
                        value_vars.add(tgt.id)
            if isinstance(x, ast.Assign) and len(x.targets) == 1 and isinstance(x.targets[0], ast.Name) and isinstance(x.value, ast.Subscript) \
                    and isinstance(x.value.value, ast.Name) and x.value.value.id in params:
                value_vars.add(x.targets[0].id)
        if not value_vars:
            continue
        # where such a value is put into the key: an element of a tuple that is appended / yielded by a comprehension
        for t in [x for x in ast.walk(helper) if isinstance(x, ast.Tuple) and isinstance(x.ctx, ast.Load)]:
            for e in t.elts:
                uses = [y for y in ast.walk(e) if isinstance(y, ast.Name) and y.id in value_vars]
                if not uses:
                    continue
                n += 1
                ctx.analysed(helper)
                printed = isinstance(e, ast.Call) and (call_name(e) or "").split(".")[-1] in ("str", "repr", "dumps", "format") or isinstance(e, ast.JoinedStr)
                ctx.ob(RID, e, printed,
                       "%s (its result keys a mapping in %s) puts the printed form of a value into the key" % (kf, q) if printed else
                       "%s, whose result keys a mapping in %s, puts the raw value %s into the key: Python's equality makes 1, True and 1.0 (0 and False) one "
                       "key, so the environments {USE_GPU: true} and {USE_GPU: 1} of two call chains are registered as ONE environment and the component "
                       "visited second is bound to the dictionary the other chain supplied ('1' where 'True' was given)" % (kf, q, short(e, 30)),
                       construct="%s.%s: values enter the identity key in printed form" % (q, kf))
    ctx.ob(RID, d.tree, True, "%d values placed into identity keys inspected" % n, construct="identity keys of dsl.py", trivial=True)


def check_dedup_keeps_locations(ctx, d) -> None:
    """R2 (obligation): errors are de-duplicated by a key that contains their LOCATION.  'for e in errors: if K not in seen: keep(e); seen.add(K)':
    K is str(e) / repr(e) / e itself, or an expression that mentions e.location - a key made of the message alone merges the same mistake made
    at two places into one report and the second location is never listed."""
    n = 0
    for q, f in d.functions.items():
        for lp in [x for x in source.walk_own(f) if isinstance(x, ast.For) and isinstance(x.target, ast.Name)]:
            ev = lp.target.id
            for iff in [x for x in ast.walk(lp) if isinstance(x, ast.If) and isinstance(x.test, ast.Compare) and len(x.test.ops) == 1
                        and isinstance(x.test.ops[0], ast.NotIn) and isinstance(x.test.comparators[0], ast.Name)]:
                seen = iff.test.comparators[0].id
                keeps = any(isinstance(c, ast.Call) and last_attr(c) == "append" and c.args and isinstance(c.args[0], ast.Name) and c.args[0].id == ev
                            for st_ in iff.body for c in ast.walk(st_))
                adds = any(isinstance(c, ast.Call) and last_attr(c) == "add" and isinstance(c.func.value, ast.Name) and c.func.value.id == seen for c in ast.walk(lp))
                if not (keeps and adds):
                    continue
                n += 1
                ctx.analysed(f)
                key = iff.test.left
                forms = [key]
                if isinstance(key, ast.Name):
                    forms = [a_.value for a_ in ast.walk(lp) if isinstance(a_, ast.Assign) and any(isinstance(t, ast.Name) and t.id == key.id for t in a_.targets)] or [key]

                def whole(e_: ast.AST) -> bool:
                    if isinstance(e_, ast.Name) and e_.id == ev:
                        return True
                    if isinstance(e_, ast.Call) and isinstance(e_.func, ast.Name) and e_.func.id in ("str", "repr") and e_.args and isinstance(e_.args[0], ast.Name) and e_.args[0].id == ev:
                        return True
                    return any(isinstance(y, ast.Attribute) and y.attr in ("location", "dsl_location") for y in ast.walk(e_))
                bad = [e_ for e_ in forms if not whole(e_)]
                ctx.ob("C06.R2-errors-carry-locations", bad[0] if bad else iff.test, not bad,
                       "%s de-duplicates its errors by a key that contains their location" % q if not bad else
                       "%s de-duplicates the collected errors by %s, which does not contain the error's location: the same mistake made at two places - two steps "
                       "that both pass the malformed reference '<gen:ref>' - is reported once, and the DSLInvalidError no longer lists the second offending "
                       "location" % (q, short(bad[0], 40)), construct="%s: de-duplication key contains the location" % q)
    ctx.ob("C06.R2-errors-carry-locations", d.tree, True, "%d de-duplication loops over collected errors inspected" % n,
           construct="de-duplication loops of dsl.py", trivial=True)


def check_foreign_exception_funnels(ctx, d) -> None:
    """R19: a handler that turns the TEXT of the caught exception into a new located error (underlying_error=<SomeError>(f".. {e}")) is the
    funnel through which exceptions of foreign code (KeyError from the scope book, TypeError ..) become part of the DSLInvalidError.  It must
    catch Exception: narrowed to one class, everything else leaves namespace_to_flowir as a raw exception, which neither
    DSLExperimentConfiguration nor the callers convert."""
    RID = "C06.R19-foreign-exceptions-are-funnelled"
    n = 0
    for q, f in d.functions.items():
        for t in [x for x in source.walk_own(f) if isinstance(x, ast.Try)]:
            for h in t.handlers:
                if h.name is None:
                    continue
                rewraps = False
                for c in [c for st in h.body for c in ast.walk(st) if isinstance(c, ast.Call) and (call_name(c) or "").endswith("DSLInvalidFieldError")]:
                    ue = next((k.value for k in c.keywords if k.arg == "underlying_error"), c.args[1] if len(c.args) > 1 else None)
                    # a NEW exception object built from the text of the caught one
                    if isinstance(ue, ast.Call) and any(isinstance(y, ast.Name) and y.id == h.name for y in ast.walk(ue)):
                        rewraps = True
                if not rewraps:
                    continue
                n += 1
                ctx.analysed(f)
                names = [source.src(x).split(".")[-1] for x in (h.type.elts if isinstance(h.type, ast.Tuple) else [h.type])] if h.type is not None else ["*"]
                ok = bool(set(names) & {"Exception", "BaseException", "*"})
                ctx.ob(RID, h, ok,
                       "%s: the handler that re-wraps foreign exceptions into a located error catches Exception" % q if ok else
                       "%s: the handler that turns the text of a caught exception into a located error catches %s only: any other exception raised while a "
                       "field is resolved (a KeyError from the scope book when '%%(replica)s' is forwarded into a non-replicating component) leaves "
                       "namespace_to_flowir as a raw exception instead of a DSLInvalidError that lists the offending location" % (q, "/".join(names)),
                       construct="%s: foreign exceptions become located errors" % q)
    ctx.floor(RID, n, 1, "handlers of dsl.py that re-wrap the text of a caught exception into a located error")


def run(ctx) -> None:
    ctx.explanation = (
        "Rejection clause and structural parts of the DSL 2.0 compiler: explicit-raise escape analysis of "
        "namespace_to_flowir over dsl.py (only DSLInvalidError may leave it; one infeasible edge frozen with its reason) and "
        "of DSLExperimentConfiguration.__init__ (conversion to the invalid-configuration error); every error object that "
        "reaches DSLInvalidError carries a location; parameter substitution is done by match span, never by content "
        "replace; generated component names are numbered over an ordered container and checked for uniqueness before "
        "use. That the producer/consumer relation equals the flattened reference relation for all namespaces, and "
        "acceptance by the FlowIR validator, need execution and are not claimed.")
    ctx.rule("C06.R1-only-dsl-invalid-error", "through explicit raises only DSLInvalidError can leave namespace_to_flowir; the configuration class converts it to ExperimentInvalidConfigurationError")
    ctx.rule("C06.R2-errors-carry-locations", "every error collected for DSLInvalidError is a DSLInvalidFieldError built with a location (or is wrapped before the raise)")
    ctx.rule("C06.R3-span-substitution", "parameter references are substituted by match span, not by str.replace on '%(name)s' text")
    ctx.rule("C06.R5-ignore-list-scope", "parameter references may stay unresolved only inside a component's own body and only for that component's variables (plus 'replica')")
    ctx.rule("C06.R6-scope-match-by-component", "OutputReference.split binds a reference to the step whose location is a prefix of the "
             "reference's location component by component (tuple elements), never as text ('gen' is a textual prefix of 'gen-data')")
    ctx.rule("C06.R10-match-checked-before-use", "in dsl.py the result of a regular-expression match/fullmatch/search is dereferenced "
             "(.group, .groupdict, .start, .end, .span) only where it was tested not to be None: otherwise the input that does not match "
             "leaves the compiler as AttributeError, not as DSLInvalidError")
    ctx.rule("C06.R11-loops-make-progress", "no while loop of dsl.py has a cycle on which nothing changes (no self-dependent update, no "
             "mutation, only pure calls): such a cycle repeats for ever and the compiler never returns")
    ctx.rule("C06.R12-typed-value-only-for-a-whole-string-reference", "a span-substituting helper returns a parameter's value itself (int, bool, "
             "dict - not spliced into the text) only on paths that established <match>.start() == 0 and <match>.end() == len(<string>): "
             "the reference is the whole string, nothing before it was substituted away")
    ctx.rule("C06.R14-substitution-reaches-into-dictionaries", "parameter references are substituted wherever their existence is checked: the validator "
             "descends into dictionary-valued arguments, so replace_parameter_references must substitute inside them too (defect "
             "594ea4c, repaired)")
    ctx.rule("C06.R13-first-element-of-a-possibly-empty-field", "dsl.py reads <object>.<field>[0] of a schema list whose default is [] only where the "
             "list was tested non-empty, or where the empty case recorded a located error that is raised before the read")
    ctx.rule("C06.R9-ancestor-chain-is-balanced", "the cycle detector of ScopeStack decides from containers that enter() grows and exit() "
             "shrinks symmetrically: a list pushed and popped, or a set/dict whose removal key is the same quantity of the popped scope "
             "as the key that was added for the entered one")
    ctx.rule("C06.R8-no-use-after-failed-membership-test", "where the compiler tests 'k not in D' to record an error, no path from the "
             "failing side reaches an unguarded D[k]: the implicit KeyError would leave namespace_to_flowir as a bare exception "
             "instead of a DSLInvalidError that lists the location")
    ctx.rule("C06.R7-default-only-when-absent", "a parameter's declared default is stored only when the argument is absent (a membership "
             "test on the arguments of the scope): a supplied 0, '', {} or null is an argument, not a missing one")
    ctx.rule("C06.R15-run-time-text-in-patterns-is-escaped", "every call of the re module in dsl.py takes a pattern that is a constant / a module constant / "
             "a parameter, or an expression (f-string, %, +, join) whose non-constant parts are wrapped in re.escape() or are module-level "
             "sub-patterns: text that exists only at run time is matched literally")
    ctx.rule("C06.R16-user-variables-override-the-entrypoint", "DSLExperimentConfiguration builds the entrypoint overrides as the entrypoint's own arguments "
             "followed by the user's variables (last update / last '**'): a value from a variable file wins over an argument the entrypoint sets")
    ctx.rule("C06.R17-recorded-errors-are-read", "a constructor of dsl.py that records an error into a list parameter keeps that very list on the object "
             "(or a caller reads its list afterwards): an error must not be recorded into a list that is thrown away")
    ctx.rule("C06.R18-identity-keys-use-printed-values", "a helper of dsl.py whose result keys a mapping (the table of known environments) puts the printed "
             "form (str/repr) of the values into that key: raw values compare with Python's equality (1 == True == 1.0) and merge different environments")
    ctx.rule("C06.R20-nothing-is-remembered-between-scopes", "the compiler keeps no process-wide mutable state: no function of the load path stores into a "
             "module-level or class-level list/dict/set (the C15.R6 analysis, class bodies included)")
    ctx.rule("C06.R19-foreign-exceptions-are-funnelled", "a handler of dsl.py that re-wraps the text of the caught exception into a new located error is the funnel "
             "for exceptions of foreign code and catches Exception (an invalid namespace is rejected with DSLInvalidError, not with a raw KeyError)")
    ctx.rule("C06.R4-unique-names", "component names are numbered over the ordered components and every name is checked against the names already used")
    ctx.assume("implicit exceptions (KeyError, pydantic internals) are outside the model; FlowIRConcrete mutators called on the freshly built "
               "description are assumed not to raise except FlowIRComponentExists, which R4 excludes")

    d = ctx.repo.module(DSL)
    conf = ctx.repo.module(CONF)
    err = ctx.repo.module(ERRORS)
    hier = escape.Hierarchy([err])
    by_simple: Dict[str, List[ast.AST]] = {}
    for q, f in d.functions.items():
        by_simple.setdefault(q.split(".")[-1], []).append(f)
    skipped: Set[Tuple[str, str]] = set()

    def resolve(fn, call):
        la = last_attr(call)
        if la is None or la in GENERIC:
            return None
        c = by_simple.get(la, [])
        if len(c) != 1:
            return None
        key = (source.qualname(fn), source.qualname(c[0]))
        if key in INFEASIBLE:
            skipped.add(key)
            return None
        return c[0]
    esc = escape.Escape(hier, resolve)

    # ---------------- R1 -------------------------------------------------------------------------------
    ntf = d.func("namespace_to_flowir")
    ctx.analysed(ntf)
    out = esc.escapes(ntf)
    ctx.extra["functions_in_escape_closure"] = sorted(esc.functions_seen)
    ctx.calls_resolved = len(esc.functions_seen)
    classes = sorted({c for c, _ in out})
    for c in classes:
        ok = c == "DSLInvalidError" or "DSLInvalidError" in hier.ancestors(c)
        origin = [o for (cc, o) in out if cc == c][0]
        ctx.ob("C06.R1-only-dsl-invalid-error", ntf, ok,
               "namespace_to_flowir can raise %s" % c if ok else
               "namespace_to_flowir lets %s escape (%s): an invalid namespace is rejected with an exception that does not list "
               "the offending locations" % (c, origin), construct="namespace_to_flowir escapes %s" % c)
    ctx.floor("C06.R1-only-dsl-invalid-error", len(esc.functions_seen), 12, "functions in the escape closure of namespace_to_flowir")
    for key in sorted(skipped):
        ctx.ob("C06.R1-only-dsl-invalid-error", ntf, True, "frozen infeasible raise edge %s -> %s: %s" % (key[0], key[1], INFEASIBLE[key]),
               construct="infeasible edge %s -> %s" % key, trivial=True)
    # the frozen edge's reason still holds: can_template_replicate feeds from_str only with finditer() matches of from_str's own patterns
    ctr = d.func("ScopeStack.can_template_replicate")
    fs_calls = [c for c in source.calls_in(ctr) if last_attr(c) == "from_str"]
    ok = bool(fs_calls) and all(c.args and isinstance(c.args[0], ast.Call) and last_attr(c.args[0]) == "group" for c in fs_calls)
    pats = {nm: match.assigned_value(ctr, nm) for nm in ("pattern_vanilla", "pattern_nested")}
    ok = ok and all(any("OutputReferenceVanilla" in source.src(v) or "OutputReferenceNested" in source.src(v) or "_pattern" in source.src(v) for v in vs) for vs in pats.values() if vs)
    ctx.ob("C06.R1-only-dsl-invalid-error", fs_calls[0] if fs_calls else ctr, ok,
           "can_template_replicate passes only regex matches to OutputReference.from_str" if ok else
           "can_template_replicate now passes something other than a regex match to OutputReference.from_str: its ValueError may escape",
           construct="from_str(match.group(0)) in can_template_replicate")
    # configuration class converts
    dcls = conf.cls("DSLExperimentConfiguration")
    dinit = [st for st in dcls.body if isinstance(st, ast.FunctionDef) and st.name == "__init__"][0]
    ctx.analysed(dinit)
    calls = [c for c in source.calls_in(dinit) if last_attr(c) == "namespace_to_flowir"]
    ctx.require(bool(calls), "anchor missing: namespace_to_flowir call in DSLExperimentConfiguration.__init__")
    for c in calls:
        tries = [a for a in source.ancestors(c) if isinstance(a, ast.Try) and any(any(c is x for x in ast.walk(s)) for s in a.body)]
        ok = False
        if tries:
            for h in tries[0].handlers:
                ht = escape.handler_types(h) or set()
                if "DSLInvalidError" in ht and any(isinstance(x, ast.Raise) and x.exc is not None and "ExperimentInvalidConfigurationError" in source.src(x.exc)
                                                   for x in ast.walk(h)):
                    ok = True
        ctx.ob("C06.R1-only-dsl-invalid-error", c, ok, "DSLInvalidError from the compiler is converted to ExperimentInvalidConfigurationError" if ok else
               "the compiler's DSLInvalidError is no longer converted to ExperimentInvalidConfigurationError")
    nsc = [c for c in source.calls_in(dinit) if (call_name(c) or "").endswith("dsl.Namespace")]
    for c in nsc:
        tries = [a for a in source.ancestors(c) if isinstance(a, ast.Try) and any(any(c is x for x in ast.walk(s)) for s in a.body)]
        ok = bool(tries) and any("ValidationError" in source.src(h.type) for h in tries[0].handlers if h.type is not None) and any(
            isinstance(x, ast.Raise) and x.exc is not None and "ExperimentInvalidConfigurationError" in source.src(x.exc)
            for h in tries[0].handlers for x in ast.walk(h))
        ctx.ob("C06.R1-only-dsl-invalid-error", c, ok, "schema (pydantic) errors are converted to ExperimentInvalidConfigurationError" if ok else
               "pydantic validation errors of the namespace are no longer converted")

    # ---------------- R2 -------------------------------------------------------------------------------
    n_sites = 0
    for q, fn in d.functions.items():
        if not any(k in q for k in ("namespace_to_flowir", "digest_dsl_component", "ComponentFlowIR", "ScopeStack", "discover_parameter_conflicts",
                                    "_common_syntax_checks", "lightweight_validate")):
            continue
        for c in source.calls_in(fn, include_nested=False):
            if not (isinstance(c.func, ast.Attribute) and c.func.attr == "append" and c.args):
                continue
            recv = dotted(c.func.value) or ""
            if recv.split(".")[-1] not in ERROR_LISTS:
                continue
            n_sites += 1
            ctx.analysed(fn)
            v = c.args[0]
            ok, why = _carries_location(fn, v)
            if not ok and q in WRAPPED_LOCALLY and recv == "errors":
                ctx.ob("C06.R2-errors-carry-locations", c, True, "plain error collected locally: frozen - %s" % WRAPPED_LOCALLY[q])
                continue
            ctx.ob("C06.R2-errors-carry-locations", c, ok,
                   "collected error %s" % why if ok else
                   "an error object without a location (%s) is collected into %s and ends up in DSLInvalidError: the rejection "
                   "does not tell where the namespace is wrong" % (short(v, 60), recv))
    ctx.floor("C06.R2-errors-carry-locations", n_sites, 30, "error collection sites in the DSL compiler")
    # the wrapping loop of ScopeStack.enter still exists
    ent = d.func("ScopeStack.enter")
    err_lists = {c.func.value.id for c in source.calls_in(ent) if last_attr(c) == "append" and isinstance(c.func.value, ast.Name)
                 and any(isinstance(v, ast.List) and not v.elts for v in match.assigned_value(ent, c.func.value.id))}
    ok = any(isinstance(n, ast.For) and isinstance(n.iter, ast.Name) and n.iter.id in err_lists and "isinstance" in source.src(n) and "DSLInvalidFieldError" in source.src(n)
             and "location" in source.src(n) for n in source.walk_own(ent))
    ctx.ob("C06.R2-errors-carry-locations", ent, ok, "ScopeStack.enter wraps plain errors with the scope's location" if ok else
           "ScopeStack.enter no longer wraps its plain errors into DSLInvalidFieldError(location=...)", construct="wrapping loop in ScopeStack.enter")
    # from_errors receives those lists
    fe = [c for c in source.calls_in(ntf) if last_attr(c) == "from_errors"]
    ok = bool(fe) and all(c.args for c in fe)
    ctx.ob("C06.R2-errors-carry-locations", ntf, ok, "%d raise sites build DSLInvalidError.from_errors(<collected errors>)" % len(fe), trivial=True,
           construct="from_errors sites")

    # ---------------- R3 -------------------------------------------------------------------------------
    for q in ("_replace_many_parameter_references", "replace_parameter_references", "ComponentFlowIR.resolve_parameter_references"):
        fn = d.func(q)
        ctx.analysed(fn)
        sites = [s for s in sub.find_sites(fn, include_nested=True) if not sub.is_literal_key(s)]
        ctx.ob("C06.R3-span-substitution", fn, not sites,
               "%s performs no content-based substitution" % q if not sites else
               "%s substitutes by content (%s): a parameter value that contains the text of another reference is rewritten twice" % (q, short(sites[0].call, 60)),
               construct="%s has no content-based substitution" % q)
    rm = d.func("_replace_many_parameter_references")
    fi = [n for n in source.walk_own(rm) if isinstance(n, ast.For) and isinstance(n.iter, ast.Call) and last_attr(n.iter) == "finditer"
          and isinstance(n.target, ast.Name)]
    ctx.require(bool(fi), "anchor missing: for <m> in <pattern>.finditer(..) in _replace_many_parameter_references")
    MATCH = fi[0].target.id
    pos_kw = [k.value.id for k in fi[0].iter.keywords if k.arg == "pos" and isinstance(k.value, ast.Name)]
    START = pos_kw[0] if pos_kw else "start"
    spans = [n for n in source.walk_own(rm) if isinstance(n, ast.Assign) and isinstance(n.value, ast.BinOp)
             and MATCH + ".start()" in source.src(n.value) and MATCH + ".end()" in source.src(n.value)]
    ok = bool(spans)
    ctx.ob("C06.R3-span-substitution", spans[0] if spans else rm, ok, "substitution rebuilds the string around the match span" if ok else
           "_replace_many_parameter_references no longer substitutes by match span")
    # the inserted text: the middle operand of the span rebuild  what[:m.start()] + <inserted> + what[m.end():]
    inserted = None
    if spans:
        parts = []
        def flat(e):
            if isinstance(e, ast.BinOp) and isinstance(e.op, ast.Add):
                flat(e.left); flat(e.right)
            else:
                parts.append(e)
        flat(spans[0].value)
        mid = [p_ for p_ in parts if isinstance(p_, ast.Name)]
        inserted = mid[0].id if mid else None
    restart = [n for n in source.walk_own(rm) if isinstance(n, ast.Assign) and isinstance(n.targets[0], ast.Name) and n.targets[0].id == START
               and inserted is not None and "len(%s)" % inserted in source.src(n.value)]
    ctx.ob("C06.R3-span-substitution", restart[0] if restart else rm, bool(restart), "the inserted text is skipped (not re-scanned in the same scope)" if restart else
           "the scan position no longer skips the inserted text: a value containing '%(x)s' is substituted again in the wrong scope")
    unk = [n for n in source.walk_own(rm) if isinstance(n, ast.Raise) and n.exc is not None and "unknown parameter" in source.src(n.exc)]
    ctx.ob("C06.R3-span-substitution", unk[0] if unk else rm, bool(unk), "a reference to an unknown parameter raises" if unk else
           "a reference to an unknown parameter no longer raises")

    # ---------------- R5: which names may stay unresolved ---------------------------------------------------------------
    n5 = 0
    for q, fn in d.functions.items():
        for c in source.calls_in(fn, include_nested=False):
            if call_name(c) != "replace_parameter_references":
                continue
            n5 += 1
            kw = {k.arg: k.value for k in c.keywords}
            v = kw.get("variables")
            in_component_body = q.startswith("ComponentFlowIR.")
            if q == "replace_parameter_references" and isinstance(v, ast.Name) and v.id in {a_.arg for a_ in fn.args.args + fn.args.kwonlyargs}:
                # the helper recursing into a container value hands its own ignore list on unchanged: no new ignore list is introduced
                ctx.ob("C06.R5-ignore-list-scope", c, True, "the recursion into a container value passes the helper's own ignore list through unchanged")
                continue
            if in_component_body:
                ok = v is not None and source.src(v).endswith("template.variables")
                ctx.ob("C06.R5-ignore-list-scope", c, ok,
                       "inside a component's own body only the component's own variables may stay unresolved" if ok else
                       "the ignore list used while resolving a component's body is not that component's variables (%s)" % (short(v, 40) if v is not None else "missing"))
            else:
                ok = v is None or (isinstance(v, ast.Constant) and v.value is None)
                if not ok and source.src(v).endswith("template.variables") and c.args or (not ok and "value" in kw):
                    # a field of the component TEMPLATE itself (not an argument of the caller) resolved outside ComponentFlowIR: every
                    # definition of the value that reaches the call reads it off <scope>.template
                    val = c.args[0] if c.args else kw["value"]
                    if isinstance(val, ast.Name) and source.src(v).endswith("template.variables"):
                        fcfg = CFG(fn)
                        at = [n_ for n_ in fcfg.nodes if n_.ast is not None and n_.kind == "stmt" and any(c is x for x in ast.walk(n_.ast))]
                        if at:
                            from vlib import flow as _flow
                            rd = _flow.reaching_defs(fcfg, val.id).get(at[0].id, frozenset())
                            vals = [_flow.def_value(fcfg, d_, val.id) if d_ >= 0 else None for d_ in rd]
                            if vals and all(x is not None and ".template." in (dotted(x) or "") for x in vals):
                                ctx.ob("C06.R5-ignore-list-scope", c, True,
                                       "a field of the component template itself (%s) is resolved with that component's variables as the ignore list"
                                       % short(vals[0], 50))
                                continue
                ctx.ob("C06.R5-ignore-list-scope", c, ok,
                       "arguments passed along the call chain are resolved with an empty ignore list (every %(name)s is a parameter of the caller)" if ok else
                       "argument values supplied by the caller are resolved with a non-empty ignore list (%s): a parameter reference whose "
                       "name coincides with a variable of the callee is left in place and later resolved to the callee's private variable "
                       "instead of the argument supplied along the call chain" % short(v, 50))
    ctx.floor("C06.R5-ignore-list-scope", n5, 2, "call sites of replace_parameter_references")
    # the ignore list only suppresses names that are in it (and 'replica' for replicating templates)
    rpr = d.func("replace_parameter_references")
    adds = [c for c in source.calls_in(rpr) if last_attr(c) == "add" and dotted(c.func.value) == "variables"]
    ok = all(c.args and isinstance(c.args[0], ast.Constant) and c.args[0].value == "replica" for c in adds)
    ctx.ob("C06.R5-ignore-list-scope", rpr, ok, "replace_parameter_references only adds 'replica' to the ignore list" if ok else
           "replace_parameter_references adds other names than 'replica' to the ignore list", construct="variables.add('replica') only")

    # ---------------- R7 -------------------------------------------------------------------------------
    fold = d.func("ScopeStack.Scope.fold_in_defaults_of_parameters")
    ctx.analysed(fold)
    cf = CFG(fold)
    stores = [n for n in cf.nodes if n.kind == "stmt" and isinstance(n.ast, ast.Assign) and isinstance(n.ast.targets[0], ast.Subscript)
              and source.src(n.ast.targets[0].value).endswith(".parameters")]
    ctx.floor("C06.R7-default-only-when-absent", len(stores), 1, "stores of a default into the scope's parameters")
    for st in stores:
        tgt = st.ast.targets[0]
        D, k = source.src(tgt.value), source.src(tgt.slice)
        absent = match.test_nodes(cf, lambda t: ("T" if isinstance(t.ops[0], ast.NotIn) else "F") if (
            isinstance(t, ast.Compare) and len(t.ops) == 1 and isinstance(t.ops[0], (ast.In, ast.NotIn))
            and source.src(t.left) == k and source.src(t.comparators[0]) == D) else None)
        ok = bool(absent) and match.only_via_edges(cf, st, absent)
        ctx.ob("C06.R7-default-only-when-absent", st.ast, ok,
               "the default is stored only when '%s not in %s'" % (k, D) if ok else
               "the default of a parameter is stored although the argument may be present (no '%s not in %s' guard; a truthiness "
               "test such as 'not %s.get(%s)' also replaces a supplied 0, '', {} or null by the default), and the wrong value is "
               "forwarded down the whole call chain" % (k, D, D, k), construct="%s <- %s not in %s" % (short(st.ast, 50), k, D))

    # ---------------- R8 -------------------------------------------------------------------------------
    n8 = 0
    for q, f in d.functions.items():
        if "." in q and q.split(".")[-2] in d.functions and False:
            continue
        hits = check_then_use(f)
        n8 += sum(1 for n in ast.walk(f) if isinstance(n, ast.Compare) and len(n.ops) == 1 and isinstance(n.ops[0], (ast.In, ast.NotIn)))
        seen_ = set()
        for (t, x) in hits:
            if (t.lineno, x.lineno) in seen_:
                continue
            seen_.add((t.lineno, x.lineno))
            ctx.analysed(f)
            ctx.ob("C06.R8-no-use-after-failed-membership-test", x, False,
                   "%s tests '%s' and, on the side where the key is missing, still evaluates %s: the KeyError is not a "
                   "DSLInvalidError - e.g. a component whose command.environment is '%%(nope)s' with no such parameter makes "
                   "namespace_to_flowir raise KeyError('nope') instead of reporting the location" % (q, short(t, 50), short(x, 40)),
                   construct="%s: %s after %s" % (q, short(x, 40), short(t, 40)))
    ctx.ob("C06.R8-no-use-after-failed-membership-test", d.tree, True, "%d membership tests inspected in dsl.py" % n8,
           construct="membership tests of dsl.py", trivial=True)
    ctx.floor("C06.R8-no-use-after-failed-membership-test", n8, 20, "membership tests in dsl.py")

    # ---------------- R9 -------------------------------------------------------------------------------
    check_ancestor_chain(ctx, d)
    check_match_before_use(ctx, d)
    check_loops_progress(ctx, d)
    check_whole_string_value(ctx, d)
    check_first_element_access(ctx, d)
    check_substitution_traverses_dictionaries(ctx, d)
    check_resolution_does_not_write_into_templates(ctx, d)
    check_split_full_prefix(ctx, d)
    check_literal_text_in_patterns(ctx, d)
    check_user_variables_override_entrypoint(ctx)
    check_producer_walk_terminates(ctx, d)
    check_recorded_errors_are_read(ctx, d)
    check_identity_keys_use_printed_values(ctx, d)
    check_foreign_exception_funnels(ctx, d)
    check_dedup_keeps_locations(ctx, d)
    # R20: nothing the compiler computes for one scope is kept where another scope (or another compilation) finds it: no function of
    # the load path writes into a module-level or class-level mutable object (seed C06-14: a table of absolute references on
    # ScopeStack.Scope keyed by the enclosing step's NAME - two instances of one workflow at different locations share its entries)
    from checks.c15 import check_module_memos
    check_module_memos(ctx, "C06.R20-nothing-is-remembered-between-scopes",
                       "in dsl.py: what was resolved for one template instance (or in an earlier compilation) is served to another one, the "
                       "consumers of the second instance are wired to the producers of the first and the result is still valid FlowIR")

    # ---------------- R6 -------------------------------------------------------------------------------
    sp = d.func("OutputReference.split")
    ctx.analysed(sp)
    elementwise = [c for c in ast.walk(sp) if isinstance(c, ast.Compare) and len(c.ops) == 1 and isinstance(c.ops[0], (ast.Eq, ast.NotEq))
                   and isinstance(c.left, ast.Subscript) and isinstance(c.comparators[0], ast.Subscript)
                   and not isinstance(c.left.slice, ast.Slice) and not isinstance(c.comparators[0].slice, ast.Slice)
                   and {"location"} & {getattr(x, "attr", None) for x in ast.walk(c)}]
    slicewise = [c for c in ast.walk(sp) if isinstance(c, ast.Compare) and len(c.ops) == 1 and isinstance(c.ops[0], (ast.Eq, ast.NotEq))
                 and any(isinstance(x, ast.Subscript) and isinstance(x.slice, ast.Slice) for x in ast.walk(c))
                 and {"location"} & {getattr(x, "attr", None) for x in ast.walk(c)}]
    textual = [c for c in ast.walk(sp) if isinstance(c, ast.Call) and isinstance(c.func, ast.Attribute)
               and c.func.attr in ("startswith", "find", "index", "count")]
    joined = {t.id for n in ast.walk(sp) if isinstance(n, ast.Assign) and isinstance(n.value, ast.Call) and last_attr(n.value) == "join"
              for t in n.targets if isinstance(t, ast.Name)}
    textual = [c for c in textual if any((isinstance(x, ast.Name) and x.id in joined) or (isinstance(x, ast.Call) and last_attr(x) == "join")
                                         for x in ast.walk(c))]
    # a textual prefix test is exact when the prefix is terminated by the separator: startswith(prefix + '/')
    def sep_terminated(c: ast.Call) -> bool:
        a = c.args[0] if c.args else None
        return c.func.attr == "startswith" and isinstance(a, ast.BinOp) and isinstance(a.op, ast.Add) \
            and isinstance(a.right, ast.Constant) and a.right.value == "/"
    textual = [c for c in textual if not sep_terminated(c)]
    exact_textual = [c for c in ast.walk(sp) if isinstance(c, ast.Call) and isinstance(c.func, ast.Attribute) and c.func.attr == "startswith"
                     and sep_terminated(c)]
    textual += [c for c in ast.walk(sp) if isinstance(c, ast.Compare) and isinstance(c.ops[0], (ast.In, ast.NotIn))
                and any((isinstance(x, ast.Name) and x.id in joined) or (isinstance(x, ast.Call) and last_attr(x) == "join") for x in ast.walk(c))]
    for t in textual:
        ctx.ob("C06.R6-scope-match-by-component", t, False,
               "OutputReference.split matches a step location against the reference as text (%s): 'pipeline/gen' is a textual prefix "
               "of 'pipeline/gen-data/out.txt', so a reference to step gen-data can be bound to its sibling gen - the consumer's "
               "references and arguments silently name the wrong producer" % short(t, 60), construct="split: %s" % short(t, 60))
    elementwise = elementwise + exact_textual
    ctx.require(bool(elementwise) or bool(slicewise) or bool(textual),
                "cannot decide how OutputReference.split matches scopes (no component-wise comparison and no textual one found)")
    if (elementwise or slicewise) and not textual:
        c0 = (elementwise or slicewise)[0]
        ctx.ob("C06.R6-scope-match-by-component", c0, True, "scopes are matched component by component", construct="split: %s" % short(c0, 60))

    # ---------------- R4 -------------------------------------------------------------------------------
    naming = [n for n in source.walk_own(ntf) if isinstance(n, ast.For) and "number_to_roman_like_numeral" in source.src(n)]
    ctx.require(bool(naming), "anchor missing: naming loop in namespace_to_flowir")
    lp = naming[0]
    fo = order.FunctionOrder(ntf, set())
    it = lp.iter
    base = it.func.value if isinstance(it, ast.Call) and isinstance(it.func, ast.Attribute) and it.func.attr in ("items", "values", "keys") else it
    ok = not fo.is_unordered(base)
    ctx.ob("C06.R4-unique-names", lp, ok, "names are numbered while iterating the ordered components" if ok else
           "names are numbered while iterating an unordered collection", construct="for ... in %s" % short(it, 50))
    # uniqueness: the generated name (or its (stage, name) pair) is tested for membership in a collection of names already taken
    # before it is stored, and that collection grows with every stored name
    # the table of generated names: the dictionary that the loop stores (stage, name) pairs into
    stores = [n for n in ast.walk(lp) if isinstance(n, ast.Assign) and isinstance(n.targets[0], ast.Subscript) and isinstance(n.targets[0].value, ast.Name)
              and isinstance(n.value, (ast.Tuple, ast.Name)) and not (isinstance(n.value, ast.Constant))
              and any(isinstance(a, (ast.For,)) and a is lp for a in source.ancestors(n))
              and not any(isinstance(a, ast.While) for a in source.ancestors(n) if a is not lp and any(a is x for x in ast.walk(lp)))]
    member_tests = [n for n in ast.walk(lp) if isinstance(n, ast.Compare) and isinstance(n.ops[0], (ast.In, ast.NotIn))
                    and isinstance(n.comparators[0], ast.Name)]
    grown = set()
    for n in ast.walk(lp):
        if isinstance(n, ast.Call) and last_attr(n) in ("add", "append") and isinstance(n.func.value, ast.Name):
            grown.add(n.func.value.id)
        if isinstance(n, ast.Assign) and isinstance(n.targets[0], ast.Subscript) and isinstance(n.targets[0].value, ast.Name):
            grown.add(n.targets[0].value.id)
    # the tested value must be the generated identifier itself: the value that is stored in the table of names (or added to
    # the collection of identifiers already handed out)
    stored_vals = {source.src(n.value) for n in stores}
    for n in ast.walk(lp):
        if isinstance(n, ast.Call) and last_attr(n) in ("add", "append") and n.args and source.src(n.args[0]) in stored_vals:
            stored_vals.add(source.src(n.args[0]))
    checks = [t for t in member_tests if t.comparators[0].id in grown and any(isinstance(a, (ast.While, ast.If)) for a in source.ancestors(t))
              and source.src(t.left) in stored_vals]
    ok = bool(stores) and bool(checks)
    ctx.ob("C06.R4-unique-names", lp, ok,
           "every generated component name is checked against the names already taken before it is used" if ok else
           "generated component names are not checked against the names already taken: steps 'foo' (instantiated twice) and a "
           "step literally called 'foo-I' both become 'foo-I', and the compilation of a valid namespace fails with "
           "FlowIRComponentExists instead of producing uniquely named components",
           construct="naming loop checks generated names for uniqueness")


def _carries_location(fn: ast.AST, v: ast.AST) -> Tuple[bool, str]:
    def is_field_error_call(x: ast.AST) -> bool:
        if isinstance(x, ast.Call) and (dotted(x.func) or "").endswith("DSLInvalidFieldError"):
            return any(k.arg == "location" for k in x.keywords) or len(x.args) >= 1
        return False
    if is_field_error_call(v):
        return True, "is a DSLInvalidFieldError built with a location"
    if isinstance(v, ast.Name):
        # handler variable of type DSLInvalidFieldError
        for a in source.ancestors(v):
            if isinstance(a, ast.ExceptHandler) and a.name == v.id:
                ht = escape.handler_types(a) or set()
                if ht and ht <= {"DSLInvalidFieldError"}:
                    return True, "is a caught DSLInvalidFieldError"
                return False, "caught %s" % sorted(ht)
            if a is fn:
                break
        # guarded by isinstance(v, DSLInvalidFieldError)
        for a in source.ancestors(v):
            if isinstance(a, ast.If):
                t, positive = a.test, True
                while isinstance(t, ast.UnaryOp) and isinstance(t.op, ast.Not):
                    t, positive = t.operand, not positive
                if isinstance(t, ast.Call) and call_name(t) == "isinstance" and len(t.args) == 2 \
                        and isinstance(t.args[0], ast.Name) and t.args[0].id == v.id and "DSLInvalidFieldError" in source.src(t.args[1]):
                    side = a.body if positive else a.orelse
                    if any(v is x for s_ in side for x in ast.walk(s_)):
                        return True, "is checked to be a DSLInvalidFieldError"
            if a is fn:
                break
        assigns = [n for n in source.walk_own(fn) if isinstance(n, ast.Assign) and any(isinstance(t, ast.Name) and t.id == v.id for t in n.targets)
                   and n.lineno < v.lineno]
        if assigns:
            last = max(assigns, key=lambda n: n.lineno)
            if is_field_error_call(last.value):
                return True, "is a local bound to DSLInvalidFieldError(location=...)"
    return False, "unrecognised"
