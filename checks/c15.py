"""C15 - loading a package is deterministic (ORD engine).  See DESIGN.md section C15."""
from __future__ import annotations

import ast
from typing import Dict, List, Optional, Set, Tuple

from vlib import match, order, source
from vlib.cfg import CFG, own_calls
from vlib.source import AnalysisError, call_name, dotted, last_attr, short

CONF = "python/experiment/model/conf.py"
FLOWIR = "python/experiment/model/frontends/flowir.py"
DSL = "python/experiment/model/frontends/dsl.py"
GRAPH = "python/experiment/model/graph.py"
SCOPE = (CONF, FLOWIR, DSL, GRAPH, "python/experiment/model/frontends/dosini.py")

# Benign hits on today's tree, each confirmed by reading; (file suffix, function, kind) -> reason.
EXEMPT = {
    ("dosini.py", "Dosini.validate_component", "S1-dictcomp"): "input of the typo search whose results only order the list of errors",
    ("dosini.py", "Dosini._comp_resource_manager_to_str", "S1-dictcomp"): "text of an error message only",
    ("dosini.py", "Dosini._dosini_environments_to_dicts", "S1-listcomp"): "the file names are unique and become the keys of a dictionary; nothing is numbered or overwritten",
    ("dosini.py", "Dosini.validate_component", "S1-materialise"): "order of the error objects in the list of errors only",
    ("dosini.py", "Dosini.validate_component", "S1-listcomp"): "order of the error objects in the list of errors only",
    ("dosini.py", "Dosini.parse_component", "S2-loop"): "every option is handled by its own branch: it appends at most one element to a list no other option appends to, or merges into the one docker dictionary",
    ("dosini.py", "Dosini.dump", "S1-listcomp"): "files to delete before writing: the order of deletion is irrelevant",
    ("dosini.py", "Dosini._comp_resource_manager_to_str", "S2-loop"): "order of the error objects in the list of errors only",
    ("flowir.py", "schema_to_option_list", "S1-extend"): "the list of valid choices / keys quoted in an error message only (its three callers format it into the text)",
    ("graph.py", "SubgraphSpanningNodes", "S1-extend"): "the nodes are handed to g.subgraph(..), a filter view of g: its node order is g's, not the list's",
    ("flowir.py", "validate_input_bindings_names", "S1-materialise"): "text of an error message only",
    ("flowir.py", "validate_provided_bindings", "S1-materialise"): "text of an error message only",
    ("flowir.py", "instantiate_dowhile", "S1-join"): "text of an error message only",
    ("flowir.py", "instantiate_dowhile", "S1-listcomp"): "text of an error message only",
    ("flowir.py", "Manifest.update", "S1-materialise"): "text of a log message only",
    ("flowir.py", "FlowIR.propagate_replicate", "S3-pop"): "pop() is taken only when the set has exactly one element (len == 1 branch)",
    ("flowir.py", "FlowIR._validate_interface", "S1-materialise"): "text of an error message only",
    ("flowir.py", "FlowIR.validate_component", "S2-loop"): "order of the returned error list only",
    ("flowir.py", "FlowIR.override_object", "S2-loop"): "work-list order; the merged dictionary is equal by content whatever the order",
    ("flowir.py", "FlowIRConcrete.validate", "S2-loop"): "order of the returned error list only",
    ("flowir.py", "FlowIRConcrete.get_stage_description", "S1-listcomp"):
        "order of Job objects inside a Stage container; names, graph, configurations and hashes are keyed by component id",
    ("dsl.py", "ComponentFlowIR.convert_outputreferences_to_datareferences", "S2-loop"):
        "error-list order, an existence test written as for/break/else, and rewriting of '<...>' delimited output "
        "references (no reference text contains another); the resulting references are sorted",
    ("dsl.py", "lightweight_validate.no_param_refs_in_parameter_defaults", "S2-loop"): "order of the returned error list only",
    ("dsl.py", "lightweight_validate.detect_unknown_variables", "S2-loop"): "order of the returned error list only",
    ("graph.py", "WorkflowGraph._discover_dowhile_placeholders", "S4-partial-key-sort"):
        "the instances matched by one placeholder are the iterations 0..k of one component: their iteration numbers are pairwise "
        "different, so the key is injective on this set (and only its maximum is taken)",
    ("graph.py", "WorkflowGraph.active_backends", "S1-materialise"): "the only consumer initialises each backend once (treats it as a set)",
    ("graph.py", "WorkflowGraph._createPrimitiveGraph", "S2-loop"):
        "insertion order of nodes/edges into the networkx graph; the graph is equal by content (traversal order inside "
        "networkx is listed as an assumption)",
    ("graph.py", "WorkflowGraph._createCompleteGraph", "S2-loop"): "same as _createPrimitiveGraph",
    ("graph.py", "WorkflowGraph._discover_dowhile_placeholders", "S1-listcomp"):
        "'represents' is sorted by its consumer (looped_reference_to_paths) or used as a set (controller)",
}


def _whole_reference_substitution(ctx, fn: ast.AST) -> bool:
    """supporting fact of a conditional exemption: every reference substitution in fn goes through a strongly anchored,
    escaped pattern (then the order in which the references are processed cannot change the result)"""
    from vlib import sub
    sites = [s for s in sub.find_sites(fn, include_nested=False) if not sub.is_literal_key(s)]
    if not sites:
        return False
    for s in sites:
        if s.kind != "regex":
            return False
        for (p, pfn, binds) in sub.resolve_pattern(fn, s.pattern):
            info = sub.pattern_anchoring(p, pfn, binds)
            if not (info["escaped_keys"] and info["left"] and info["right"] and not info["raw_interpolation"]
                    and info.get("left_kind") == "strong"):
                return False
    return True


# exemptions that hold only while a supporting fact (re-verified on every run) holds
EXEMPT_IF = {
    ("graph.py", "ComponentSpecification._compute_memoization_info", "S4-partial-key-sort"): (
        "the order among references of equal length is immaterial: each reference is replaced as a whole (strongly anchored, "
        "escaped pattern - re-verified here and by C16.R5), the inserted '<kind>:<digest>:<method>' text is no reference, and "
        "the other uses of the list are keyed dictionary stores", _whole_reference_substitution),
}


def locally_sanitized(fo: order.FunctionOrder, hit: order.Hit) -> bool:
    """The materialised sequence is bound to a local name all of whose uses are order-insensitive."""
    p = source.parent(hit.node)
    if not (isinstance(p, ast.Assign) and len(p.targets) == 1 and isinstance(p.targets[0], ast.Name)):
        return False
    name = p.targets[0].id
    for n in source.walk_own(fo.fn):
        if isinstance(n, ast.Name) and n.id == name and isinstance(n.ctx, ast.Load):
            par = source.parent(n)
            if fo.sanitized(n):
                continue
            if isinstance(par, ast.UnaryOp) and isinstance(par.op, ast.Not):
                continue
            if isinstance(par, (ast.If, ast.While)) and par.test is n:
                continue
            if isinstance(par, ast.comprehension) and par.iter is n:
                # feeding another comprehension that is re-bound to the same name
                comp = source.parent(par)
                pp = source.parent(comp)
                if isinstance(pp, ast.Assign) and len(pp.targets) == 1 and isinstance(pp.targets[0], ast.Name) \
                        and pp.targets[0].id == name:
                    continue
            return False
    return True


def flow_names(e: ast.AST) -> List[str]:
    """Names whose values flow into the *elements/order* of e (filter conditions of comprehensions do not)."""
    if isinstance(e, (ast.ListComp, ast.GeneratorExp)):
        out: List[str] = []
        bound = set()
        for g in e.generators:
            out += flow_names(g.iter)
            bound |= {n.id for n in ast.walk(g.target) if isinstance(n, ast.Name)}
        out += [n for n in flow_names(e.elt) if n not in bound]
        return out
    if isinstance(e, ast.BoolOp):
        return [n for v in e.values for n in flow_names(v)]
    return source.names_in(e)


def single_pass_substitutors(mods) -> Set[str]:
    """names of module-level functions whose result is <Template>.safe_substitute/.substitute(...) of their arguments"""
    out: Set[str] = set()
    for m in mods:
        for q, fn in m.functions.items():
            if "." in q:
                continue
            for r in ast.walk(fn):
                if isinstance(r, ast.Return) and isinstance(r.value, ast.Call) and isinstance(r.value.func, ast.Attribute) \
                        and r.value.func.attr in ("safe_substitute", "substitute"):
                    out.add(q)
    return out


def check_single_pass_expansion(ctx, mods) -> None:
    rule = "C15.R5-single-pass-expansion-not-loop-carried"
    subs = single_pass_substitutors(mods)
    ctx.require("expand_vars" in subs, "anchor missing: flowir.expand_vars is no longer a Template.safe_substitute wrapper "
                                        "(single-pass substitutors found: %s)" % sorted(subs))
    ctx.extra["single_pass_substitutors"] = sorted(subs)
    n = 0
    for m in mods:
        for q, fn in m.functions.items():
            calls = [c for c in source.calls_in(fn) if (last_attr(c) in subs or call_name(c) in subs
                                                        or last_attr(c) in ("safe_substitute", "substitute"))]
            for c in calls:
                ctxarg = c.args[1] if len(c.args) > 1 else (c.args[0] if last_attr(c) in ("safe_substitute", "substitute") and c.args else None)
                n += 1
                if not isinstance(ctxarg, ast.Name):
                    ctx.ob(rule, c, True, "the substitution context is a fresh expression, not a mapping mutated in a loop",
                           construct="%s: %s" % (q, short(c, 80)), trivial=not isinstance(ctxarg, ast.Name))
                    continue
                d = ctxarg.id
                loops = [a for a in source.ancestors(c) if isinstance(a, (ast.For, ast.While)) and any(a is x for x in ast.walk(fn))]
                carried = None
                for lp in loops:
                    it = lp.iter if isinstance(lp, ast.For) else None
                    # deterministic iteration (sorted) does not depend on document order
                    if isinstance(it, ast.Call) and call_name(it) == "sorted":
                        continue
                    over_mapping = it is not None and any(isinstance(x, ast.Name) and x.id == d for x in ast.walk(it))
                    # a loop over a SET visits its members in hash order: a context that grows in such a loop is loop-carried as well
                    # (seed C15-13: the names of DEFAULTS made a set, the expansion context the launch values gathered so far)
                    it_val = match.resolve_local(fn, it) if it is not None else None
                    over_set = isinstance(it_val, (ast.Set, ast.SetComp)) or (isinstance(it_val, ast.Call) and call_name(it_val) in ("set", "frozenset"))
                    if not over_mapping and not over_set:
                        continue
                    for x in ast.walk(lp):
                        if isinstance(x, (ast.Assign, ast.AugAssign)):
                            tg = x.targets if isinstance(x, ast.Assign) else [x.target]
                            if any(isinstance(t, ast.Subscript) and isinstance(t.value, ast.Name) and t.value.id == d for t in tg):
                                carried = x
                        elif isinstance(x, ast.Call) and isinstance(x.func, ast.Attribute) and isinstance(x.func.value, ast.Name) \
                                and x.func.value.id == d and x.func.attr in ("update", "setdefault", "pop", "__setitem__"):
                            carried = x
                        elif isinstance(x, ast.Delete) and any(isinstance(t, ast.Subscript) and isinstance(t.value, ast.Name)
                                                               and t.value.id == d for t in x.targets):
                            carried = x
                    if carried is not None:
                        break
                ctx.ob(rule, c, carried is None,
                       "the context '%s' is not modified while the mapping is iterated (expansion against a snapshot)" % d if carried is None else
                       "single-pass substitution with context '%s' inside a loop over '%s' that also stores into it (%s): keys "
                       "visited later see already-expanded values of earlier keys, so two equal documents that list the keys in a "
                       "different order (or, for a set, two runs with a different hash seed) resolve differently" % (d, d if not isinstance(lp, ast.For) else short(lp.iter, 40), short(carried, 60)),
                       construct="%s: %s" % (q, short(c, 80)))
    ctx.floor(rule, n, 2, "single-pass substitution calls")


LOAD_PATH = ("python/experiment/model/conf.py", "python/experiment/model/frontends/flowir.py", "python/experiment/model/frontends/dosini.py",
             "python/experiment/model/frontends/dsl.py", "python/experiment/model/graph.py", "python/experiment/model/storage.py",
             "python/experiment/model/data.py")


# class-level sets that only remember which warnings were logged already (read by nothing but the logging helper itself)
LOG_ONLY_CLASS_STATE = {"FlowIRExperimentConfiguration._suppressed_warnings", "Dosini._suppressed_warnings"}


def check_module_memos(ctx, rule: str, consequence: str) -> None:
    """No function of the load path writes into a module-level list/dict/set (a process-wide memo).  Shared by C15.R6 and C07.R11.
    Expected count on a healthy tree is zero; the selftest keeps a positive example (a parse cache keyed by path and mtime)."""
    from vlib import state
    n_fn = 0
    hits = []
    for rel in LOAD_PATH:
        mm = ctx.repo.module(rel)
        globs = state.module_mutable_globals(mm.tree)
        cattrs = state.class_mutable_attrs(mm.tree)
        for q, f in mm.functions.items():
            if "." in q and q.rsplit(".", 1)[0] in mm.functions:
                continue            # a function defined inside another function: walked with its owner (methods of nested classes are not)
            n_fn += 1
            for (node, name, how) in (state.module_global_writes(f, globs) if globs else []):
                hits.append((rel, q, node, name, how))
            # a mutable object bound in a class BODY is process-wide as well (seed C06-14: a translation table on ScopeStack.Scope)
            for (node, name, how) in (state.class_attr_writes(f, cattrs) if cattrs else []):
                if name in LOG_ONLY_CLASS_STATE:
                    continue
                hits.append((rel, q, node, "class attribute " + name, how))
    for (rel, q, node, name, how) in hits:
        ctx.ob(rule, node, False,
               "%s writes into the module-level object %s of %s (%s): it outlives the call and is shared by every later load in the "
               "process - %s" % (q, name, rel.split("/")[-1], how, consequence), construct="%s: %s of module-level %s" % (q, how, name))
    if not hits:
        ctx.ob(rule, ctx.repo.module(LOAD_PATH[0]).tree, True,
               "no function of the load path writes into a module-level list/dict/set (%d functions inspected)" % n_fn,
               construct="module-level state of the load path is never written by its functions")
    ctx.floor(rule, n_fn, 500, "functions of the load-path modules inspected for module-level memos")


ARG_MUTATORS = ("update", "setdefault", "pop", "popitem", "clear", "append", "extend", "insert", "remove", "sort", "reverse")


def check_arguments_not_mutated(ctx, confm) -> None:
    """The entry point of every load (ExperimentConfigurationFactory.configurationForExperiment) leaves the objects it was handed as they
    were: a dictionary or list parameter is mutated only after it was rebound to a copy.  Otherwise what one load adds (the implied
    manifest of package A) is still there when the caller hands the same object to the next load."""
    RID = "C15.R11-loads-do-not-write-into-their-arguments"
    from vlib import flow
    n = 0
    for q, f in sorted(confm.functions.items()):
        if q.split(".")[-1] != "configurationForExperiment":
            continue
        ctx.analysed(f)
        cfg = CFG(f)
        params = {a.arg for a in f.args.args + f.args.kwonlyargs} - {"self", "cls"}
        # an OUT parameter (the function only ever writes into it and tests it for None) is the documented way to hand results back
        out_params = set()
        for pn in params:
            uses = [x for x in ast.walk(f) if isinstance(x, ast.Name) and x.id == pn and isinstance(x.ctx, ast.Load)]
            def write_or_none_test(x) -> bool:
                par = source.parent(x)
                if isinstance(par, ast.Compare) and all(isinstance(c_, ast.Constant) and c_.value is None for c_ in par.comparators):
                    return True
                if isinstance(par, ast.Subscript) and isinstance(par.ctx, (ast.Store, ast.Del)):
                    return True
                if isinstance(par, ast.Attribute) and par.attr in ARG_MUTATORS:
                    return True
                # 'p = p if p is not None else {}': rebinding the name to itself
                st_ = source.stmt_of(x)
                return isinstance(st_, ast.Assign) and len(st_.targets) == 1 and isinstance(st_.targets[0], ast.Name) and st_.targets[0].id == pn
            if uses and all(write_or_none_test(x) for x in uses):
                out_params.add(pn)
        params -= out_params
        for nd in cfg.nodes:
            if nd.ast is None or nd.kind not in ("stmt", "test"):
                continue
            sites = []
            for c in own_calls(nd.ast):
                if last_attr(c) in ARG_MUTATORS and isinstance(c.func, ast.Attribute) and isinstance(c.func.value, ast.Name) and c.func.value.id in params:
                    sites.append((c.func.value.id, c))
            if isinstance(nd.ast, (ast.Assign, ast.AugAssign, ast.Delete)):
                tg = nd.ast.targets if isinstance(nd.ast, (ast.Assign, ast.Delete)) else [nd.ast.target]
                for t in tg:
                    if isinstance(t, ast.Subscript) and isinstance(t.value, ast.Name) and t.value.id in params:
                        sites.append((t.value.id, t))
            for (pn, site) in sites:
                n += 1
                rd = flow.reaching_defs(cfg, pn, ignore_labels=("exc",)).get(nd.id, frozenset())
                # -1 = the value the caller passed; a definition that is not a copy keeps the caller's object too
                def is_copy(d) -> bool:
                    if d < 0:
                        return False
                    v = flow.def_value(cfg, d, pn)
                    return isinstance(v, (ast.Dict, ast.List, ast.DictComp, ast.ListComp)) or (
                        isinstance(v, ast.Call) and (call_name(v) or "").split(".")[-1] in ("dict", "list", "copy", "deepcopy", "deep_copy"))  or (
                        v is not None and pn not in source.names_in(v))
                own = all(is_copy(d) for d in rd) and bool(rd)
                ctx.ob(RID, site, own,
                       "%s is written only after it was rebound to an object of the load's own" % pn if own else
                       "%s writes into its argument %s (%s): the object belongs to the caller - a caller that re-uses it for a second package hands "
                       "the first package's entries (e.g. its top-level folders, which decide whether 'name:ref' is a folder or a component) to "
                       "the second load, whose result then depends on what the process loaded before" % (q, pn, short(site, 50)),
                       construct="%s: %s is a copy when it is written" % (q.split(".")[-1], pn))
    found = [q for q in confm.functions if q.split(".")[-1] == "configurationForExperiment"]
    ctx.require(bool(found), "anchor missing: configurationForExperiment in conf.py")
    ctx.ob(RID, confm.functions[found[0]], True, "%d write(s) into parameters of configurationForExperiment examined" % n, trivial=True,
           construct="configurationForExperiment: parameters")


def check_search_verdicts(ctx, mods) -> None:
    """A loop over the values/items/keys of a mapping (its order is the order in which the document lists the keys) that returns
    from inside the loop is a search.  It is order-independent when every return inside the loop gives the same verdict ("is there an
    element with P": the other verdict is reached by exhausting the mapping); two different verdicts inside the loop make the FIRST
    matching key win."""
    RID = "C15.R10-search-over-a-mapping-has-one-verdict"
    n = 0
    for m in mods:
        for q, fn in m.functions.items():
            for lp in source.walk_own(fn):
                if not (isinstance(lp, ast.For) and isinstance(lp.iter, ast.Call) and isinstance(lp.iter.func, ast.Attribute)
                        and lp.iter.func.attr in ("values", "items", "keys") and not lp.iter.args):
                    continue
                rets = []
                todo = list(lp.body)
                while todo:
                    x = todo.pop()
                    if isinstance(x, (ast.FunctionDef, ast.AsyncFunctionDef, ast.Lambda, ast.ClassDef)):
                        continue
                    if isinstance(x, ast.Return):
                        rets.append(x)
                    todo.extend(ast.iter_child_nodes(x))
                if not rets:
                    continue
                n += 1
                ctx.analysed(fn)
                verdicts = sorted({source.src(r.value) if r.value is not None else "None" for r in rets})
                ok = len(verdicts) == 1
                ctx.ob(RID, lp, ok,
                       "every return inside the loop over %s gives the verdict %s (an existence test)" % (short(lp.iter, 40), verdicts[0]) if ok else
                       "the loop over %s returns %s from inside the loop: whichever key the document lists first decides, so two documents "
                       "that differ only in the order of these keys get different answers (e.g. 'replicates' for one, 'unknown variable "
                       "replica' for the other)" % (short(lp.iter, 40), " or ".join(verdicts)),
                       construct="%s: search over %s" % (fn.name, short(lp.iter, 40)))
    ctx.floor(RID, n, 1, "loops over a mapping view that return from inside the loop")


def check_rekeying(ctx, mods) -> None:
    RID = "C15.R8-key-normalisation-in-sorted-order"
    NORMALISERS = ("lower", "upper", "strip", "casefold", "title")
    n = 0
    for m in mods:
        for q, fn in m.functions.items():
            for lp in source.walk_own(fn):
                if not (isinstance(lp, ast.For) and isinstance(lp.target, ast.Name)):
                    continue
                k = lp.target.id
                # D[<normaliser>(k)] = D[k] in the body, for the mapping D whose keys are iterated
                hits = []
                for st in ast.walk(lp):
                    if not (isinstance(st, ast.Assign) and len(st.targets) == 1 and isinstance(st.targets[0], ast.Subscript)):
                        continue
                    v = st.value
                    # the old entry: D[k], or D.pop(k)
                    if isinstance(v, ast.Subscript) and isinstance(v.slice, ast.Name) and v.slice.id == k:
                        dexpr = v.value
                    elif isinstance(v, ast.Call) and last_attr(v) == "pop" and len(v.args) == 1 and isinstance(v.args[0], ast.Name) and v.args[0].id == k:
                        dexpr = v.func.value
                    else:
                        continue
                    key = st.targets[0].slice
                    if source.src(st.targets[0].value) != source.src(dexpr):
                        # copied into ANOTHER mapping under a key computed from k (T[int(k[5:])] = S[k], possibly through a local of the
                        # loop body): two keys of S that the computation maps to one key of T collide the same way
                        kexpr = key
                        if isinstance(key, ast.Name) and key.id != k:
                            defs_ = [a.value for a in ast.walk(lp) if isinstance(a, ast.Assign) and any(isinstance(t_, ast.Name) and t_.id == key.id for t_ in a.targets)]
                            kexpr = defs_[0] if len(defs_) == 1 else None
                        derived = kexpr is not None and not isinstance(kexpr, ast.Name) and any(isinstance(x, ast.Name) and x.id == k for x in ast.walk(kexpr)) \
                            and any(isinstance(x, (ast.Call, ast.Subscript)) for x in ast.walk(kexpr))
                        if derived and isinstance(v, ast.Subscript):
                            hits.append((st, source.src(dexpr)))
                        continue
                    # the new key: k.lower() and the like, or any function of k alone (stage_identifier_to_stage_index(k))
                    if isinstance(key, ast.Call) and ((isinstance(key.func, ast.Attribute) and key.func.attr in NORMALISERS
                                                       and isinstance(key.func.value, ast.Name) and key.func.value.id == k)
                                                      or (len(key.args) == 1 and not key.keywords and isinstance(key.args[0], ast.Name) and key.args[0].id == k)):
                        hits.append((st, source.src(dexpr)))
                for (st, dname) in hits:
                    if dname not in source.src(lp.iter):
                        continue
                    n += 1
                    it = lp.iter
                    # a key function is accepted only when it cannot tie two different keys (repr); str.lower and the like tie exactly
                    # the keys that collide
                    ok = isinstance(it, ast.Call) and call_name(it) == "sorted" and not any(
                        kw.arg == "key" and not (isinstance(kw.value, ast.Name) and kw.value.id == "repr") for kw in it.keywords) and not any(
                        kw.arg == "reverse" and not isinstance(kw.value, ast.Constant) for kw in it.keywords)
                    ctx.analysed(fn)
                    ctx.ob(RID, lp, ok,
                           "%s re-keys %s under %s while iterating its keys in sorted order" % (q, dname, short(st.targets[0].slice, 20)) if ok else
                           "%s re-keys %s under %s while iterating %s: when two keys differ only by the normalisation (MyEnv / MYENV) the one "
                           "the document lists last overwrites the other - two equal documents that list the keys in a different order "
                           "resolve the name differently" % (q, dname, short(st.targets[0].slice, 20), short(it, 40)),
                           construct="%s: for <key> in sorted(%s) <- %s[%s] = %s[<key>]" % (q, dname, dname, short(st.targets[0].slice, 20), dname))
    ctx.floor(RID, n, 1, "loops that re-key a mapping under a normalised key")


def list_order_effect(e: ast.AST) -> Optional[str]:
    """What an expression does to the order / multiplicity of the list it is built from, as far as 'the last one wins' is
    concerned.  None = harmless (copies, 'x or []', an even number of reversals, de-duplication that keeps the LAST occurrence);
    otherwise the reason.  Orientation is tracked through reversed()/[::-1]; dict.fromkeys / OrderedDict.fromkeys keep the first
    occurrence in the orientation they see."""
    def walk(x: ast.AST, flipped: bool):
        """returns (flipped, reason) for the value of x relative to its innermost list source"""
        if isinstance(x, ast.Call):
            cn = call_name(x) or ""
            base = cn.split(".")[-1]
            if base in ("list", "tuple") and x.args:
                return walk(x.args[0], flipped)
            if base == "reversed" and x.args:
                f, r = walk(x.args[0], flipped)
                return (not f, r)
            if base == "fromkeys" and x.args:
                f, r = walk(x.args[0], flipped)
                if r:
                    return (f, r)
                if not f:
                    return (f, "a de-duplication that keeps the FIRST occurrence: for [a, b, a] the files are layered as [a, b], so b "
                               "wins although a was given last")
                return (f, None)
            if base in ("sorted", "set", "frozenset"):
                return (flipped, "a set or a sort")
            # {key(p): p for p in L}.values() / .keys(): assigning a key a second time replaces the VALUE but keeps the key at its first
            # position - a de-duplication that keeps the first occurrence
            if isinstance(x.func, ast.Attribute) and x.func.attr in ("values", "keys", "items") and isinstance(x.func.value, ast.DictComp):
                return walk(x.func.value, flipped)
            return (flipped, None)
        if isinstance(x, ast.DictComp) and x.generators:
            f, r = walk(x.generators[0].iter, flipped)
            if r:
                return (f, r)
            if not f:
                return (f, "a dictionary keyed by the file keeps a repeated file at its FIRST position (a second assignment replaces the value, not "
                           "the place): for [a, b, a] the files are layered as [a, b], so b wins although a was given last")
            return (f, None)
        if isinstance(x, ast.Subscript) and isinstance(x.slice, ast.Slice) and x.slice.lower is None and x.slice.upper is None \
                and isinstance(x.slice.step, ast.UnaryOp) and isinstance(x.slice.step.op, ast.USub) \
                and isinstance(x.slice.step.operand, ast.Constant) and x.slice.step.operand.value == 1:
            f, r = walk(x.value, flipped)
            return (not f, r)
        if isinstance(x, ast.BoolOp):
            return walk(x.values[0], flipped)
        return (flipped, None)
    f, r = walk(e, False)
    if r:
        return r
    if f:
        return "an odd number of reversals: the files are layered in the opposite order"
    return None


def mapping_key_helpers(dmod):
    """[(qualified name of the user, name of the helper, the helper)]: functions of the module whose result is used as a key of a mapping"""
    out = []
    for q, f in dmod.functions.items():
        key_funcs = set()
        for n in source.walk_own(f):
            keys = []
            if isinstance(n, ast.Subscript):
                keys.append(n.slice)
            if isinstance(n, ast.Compare) and len(n.ops) == 1 and isinstance(n.ops[0], (ast.In, ast.NotIn)):
                keys.append(n.left)
            for k in keys:
                if isinstance(k, ast.Name):
                    for v in match.assigned_value(f, k.id):
                        if isinstance(v, ast.Call) and isinstance(v.func, ast.Name):
                            key_funcs.add(v.func.id)
                elif isinstance(k, ast.Call) and isinstance(k.func, ast.Name):
                    key_funcs.add(k.func.id)
        for kf in sorted(key_funcs):
            helper = dmod.functions.get("%s.%s" % (q, kf)) or dmod.functions.get(kf)
            if helper is not None:
                out.append((q, kf, helper))
    return out


def run(ctx) -> None:
    ctx.explanation = (
        "Order-taint (ORD) over every function of conf.py, flowir.py, dsl.py and graph.py: sets, set operations, functions "
        "whose every return is a set, and directory listings are unordered sources; materialising them into a sequence, "
        "joining them, popping from them, or looping over them with an order-dependent effect (append, break/return, "
        "counters) without sorted()/an order-insensitive consumer is a violation unless frozen as benign with a reason. "
        "Plus: user variable files keep the caller's order and are folded last-wins; the hash routine iterates only "
        "through sorted(); generated names are numbered while iterating ordered containers. Covers every hash seed and "
        "directory order at once; equality of full dumps across processes is not run.")
    ctx.rule("C15.R1-order-taint", "no unordered source reaches an order-dependent sink without a sanitizer (frozen benign cases excepted)")
    ctx.rule("C15.R2-variable-files-order", "variable files are layered in the order given, last one wins")
    ctx.rule("C15.R3-hash-sorted", "_memoization_info_to_hash iterates dictionaries and lists only through sorted()")
    ctx.rule("C15.R4-naming-over-ordered", "generated names (duplicate suffixes, envN) are numbered while iterating ordered containers")
    ctx.rule("C15.R6-no-process-wide-memo", "the modules on the load path keep no process-wide mutable state: a function stores into "
             "class-level attributes (cls.X, <Class>.X, their items, or through their mutators) only immutable scalars - a class-level "
             "cache of parsed or resolved objects makes the second load in a process differ from the first load of a fresh process")
    ctx.rule("C15.R7-identity-keys-are-canonical", "a value that identifies a mapping (it is used as a dictionary key / looked up with 'in') and "
             "is built by iterating that mapping is built in sorted order (or as a frozenset): equal documents that list the keys in a "
             "different order must get the same identity")
    ctx.rule("C15.R8-key-normalisation-in-sorted-order", "a loop that re-keys a mapping in place under a normalised key (D[k.lower()] = D[k]; del D[k]) "
             "iterates the keys in sorted order: when two keys collide after normalisation the survivor must not depend on the order in "
             "which the document lists them")
    ctx.rule("C15.R9-scope-per-component", "components are visited in the order of a SET of identifiers (hash-seed dependent); that is harmless only "
             "while nothing is carried from one component to the next: the substitution scope that receives a component's variables in "
             "FlowIRConcrete.instance is created inside the loop over the components (shared rule with C04.R12)")
    ctx.rule("C15.R12-queries-do-not-write-the-description", "the graph builders resolve components while iterating a SET of identifiers; the "
             "resolved configurations are the same in every process only if resolving one component writes nothing into the description the "
             "next one is resolved from (effect analysis of FlowIRConcrete shared with C08: a write without invalidation, or a getter that "
             "hands out stored state which the resolver then interpolates in place)")
    ctx.rule("C15.R14-the-later-layer-wins-whatever-its-value", "user variable files are layered with FlowIR.override_object: the last one wins only if that merge "
             "lets the higher layer win for EVERY value that is not None - also 0, False and '' (the C04 analysis of override_object re-used)")
    ctx.rule("C15.R13-positions-in-document-mappings-are-not-used", "equal documents may list the keys of a mapping in any order: dsl.py never uses the "
             "POSITION of a key in a mapping field of the document (list(<model>.<mapping field>).index(..), a sort keyed by it) - traversal order comes "
             "from the document's lists (execute) only")
    ctx.rule("C15.R11-loads-do-not-write-into-their-arguments", "configurationForExperiment mutates a dictionary / list parameter only when every reaching "
             "definition of the name at that point is a copy made by the function itself (dict(..), list(..), a literal, a value not derived from "
             "the parameter)")
    ctx.rule("C15.R10-search-over-a-mapping-has-one-verdict", "a loop over the values/items/keys of a mapping that returns from inside the loop returns "
             "one and the same value at every such return (the other answer is given after the loop): with two verdicts inside the loop "
             "the key listed first in the document decides")
    ctx.rule("C15.R5-single-pass-expansion-not-loop-carried", "a single-pass substitution (Template.safe_substitute wrappers such as "
             "expand_vars) applied while iterating a mapping never uses as its context a mapping that is stored into in the same "
             "loop: otherwise values seen by later keys depend on the key order of the (equal) input document")
    ctx.assume("dict iteration order is insertion order (Python >= 3.7); traversal order inside networkx for equal graphs "
               "built in different insertion orders is not analysed")
    ctx.assume("set-typedness is inferred from constructors, set operations, annotations and functions whose every return "
               "is a set; a set stored on an attribute and read elsewhere is not tracked")

    mods = [ctx.repo.module(r) for r in SCOPE]
    sr = order.set_returning_functions(mods)
    ctx.extra["set_returning_functions"] = sorted(sr)
    n_hits = 0
    n_funcs = 0
    for m in mods:
        for q, fn in m.functions.items():
            n_funcs += 1
            fo = order.FunctionOrder(fn, sr)
            hits = fo.hits()
            if hits:
                ctx.analysed(fn)
            for h in hits:
                if locally_sanitized(fo, h):
                    ctx.ob("C15.R1-order-taint", h.node, True, "unordered values bound to a local that is only consumed order-insensitively",
                           trivial=True)
                    continue
                n_hits += 1
                key = (m.rel.split("/")[-1], q, h.kind)
                reason = EXEMPT.get(key)
                if not reason and key in EXEMPT_IF and EXEMPT_IF[key][1](ctx, fn):
                    reason = EXEMPT_IF[key][0]
                if reason:
                    ctx.ob("C15.R1-order-taint", h.node, True, "%s: frozen as benign - %s" % (h.why, reason),
                           construct="%s %s" % (h.kind, short(h.node, 100)))
                else:
                    ctx.ob("C15.R1-order-taint", h.node, False,
                           "%s in %s: the result depends on set iteration order (PYTHONHASHSEED) or directory order; wrap the "
                           "source in sorted() or keep an ordered container" % (h.why, q),
                           construct="%s %s" % (h.kind, short(h.node, 100)))
    ctx.extra["functions_scanned"] = n_funcs
    check_single_pass_expansion(ctx, mods)
    check_rekeying(ctx, mods)
    check_search_verdicts(ctx, mods)
    check_arguments_not_mutated(ctx, ctx.repo.module(CONF))
    ctx.floor("C15.R1-order-taint", n_hits, 10, "order-taint hits (benign + violating) - fewer means the detector lost its sources")

    # ---------------- R2 -------------------------------------------------------------------------------
    conf = ctx.repo.module(CONF)
    for q in ("FlowIRExperimentConfiguration.__init__", "FlowIRExperimentConfiguration.parametrize"):
        fn = conf.func(q)
        ctx.analysed(fn)
        fo = order.FunctionOrder(fn, sr)
        stores = [n for n in source.walk_own(fn) if isinstance(n, ast.Assign) and any(
            source.src(t) == "self._variable_files" for t in n.targets)]
        ctx.require(bool(stores), "anchor missing: self._variable_files assignment in %s" % q)
        for st in stores:
            names = set(flow_names(st.value))
            bad = None
            bad_why = ""
            # follow local definitions of the stored name(s)
            seen: Set[str] = set()
            todo = list(names)
            while todo:
                nm = todo.pop()
                if nm in seen:
                    continue
                seen.add(nm)
                for v in match.assigned_value(fn, nm):
                    direct = [v] + ([g.iter for g in v.generators] if isinstance(v, (ast.ListComp, ast.GeneratorExp)) else [])
                    why = list_order_effect(v)
                    if why is None and (fo.is_unordered(v) or any(
                            isinstance(x, ast.Call) and call_name(x) in ("set", "frozenset", "sorted")
                            for dv in direct for x in ([dv] + ([a for a in dv.args] if isinstance(dv, ast.Call) else [])))):
                        why = "a set or a sort"
                    if why:
                        bad = v
                        bad_why = why
                    todo.extend(flow_names(v))
            ok = bad is None and "variable_files" in seen
            ctx.ob("C15.R2-variable-files-order", st, ok,
                   "the stored list of variable files derives from the caller's list without passing through a set or a sort" if ok else
                   "the list of user variable files passes through %s before it is stored (%s): the layering order of several files "
                   "no longer is the order given, contradicting 'the last one wins'"
                   % ((short(bad, 60), bad_why) if bad is not None else ("an unknown source", "not derived from the caller's list")),
                   construct="%s in %s" % (short(st, 80), q))
    lm = conf.func("FlowIRExperimentConfiguration.layer_many_variable_files")
    ctx.analysed(lm)
    loops = [n for n in source.walk_own(lm) if isinstance(n, ast.For) and isinstance(n.iter, ast.Name) and n.iter.id == "variable_files"]
    ok = bool(loops)
    ctx.ob("C15.R2-variable-files-order", loops[0] if loops else lm, ok, "layer_many_variable_files iterates the list in the order given" if ok else
           "layer_many_variable_files no longer iterates variable_files directly (sorted/reversed/set?)", construct="for path in variable_files")
    folds = [c for c in source.calls_in(lm) if last_attr(c) == "override_object" and len(c.args) == 2]
    okf = False
    returned = {r.value.id for r in source.walk_own(lm) if isinstance(r, ast.Return) and isinstance(r.value, ast.Name)}
    for c in folds:
        in_loop = any(c is x for lp in loops for x in ast.walk(lp))
        first_is_agg = isinstance(c.args[0], ast.Name) and c.args[0].id in returned
        second_is_file = isinstance(c.args[1], ast.Name) and c.args[1].id not in returned
        p = source.parent(c)
        rebinding_ok = not isinstance(p, ast.Assign) or (isinstance(p.targets[0], ast.Name) and p.targets[0].id == c.args[0].id)
        if in_loop and first_is_agg and second_is_file and rebinding_ok:
            okf = True
    ctx.ob("C15.R2-variable-files-order", folds[0] if folds else lm, okf,
           "each file is layered over the aggregate (agg = override_object(agg, file)): the last one wins" if okf else
           "the fold is no longer 'aggregate = override_object(aggregate, next file)': earlier files can win",
           construct="agg = override_object(agg, user_vars)")

    # ---------------- R3 -------------------------------------------------------------------------------
    g = ctx.repo.module(GRAPH)
    h = g.func("ComponentSpecification._memoization_info_to_hash")
    ctx.analysed(h)
    iters = [n.iter for n in source.walk_own(h) if isinstance(n, ast.For)] + \
            [gen.iter for n in source.walk_own(h) if isinstance(n, (ast.ListComp, ast.SetComp, ast.GeneratorExp, ast.DictComp)) for gen in n.generators]
    ctx.floor("C15.R3-hash-sorted", len(iters), 2, "iterations in _memoization_info_to_hash")
    for it in iters:
        ok = isinstance(it, ast.Call) and call_name(it) == "sorted"
        ctx.ob("C15.R3-hash-sorted", it, ok, "iteration goes through sorted()" if ok else
               "the hash routine iterates %s without sorted(): the hash depends on container order" % short(it, 60))

    # ---------------- R4 -------------------------------------------------------------------------------
    d = ctx.repo.module(DSL)
    ntf = d.func("namespace_to_flowir")
    ctx.analysed(ntf)
    fo = order.FunctionOrder(ntf, sr)
    naming_loops = []
    for n in source.walk_own(ntf):
        if isinstance(n, ast.For):
            body_src = " ".join(source.src(s) for s in n.body)
            # a loop that generates names: the roman-numeral suffix of duplicates, or 'env<len(table)>' where the table is a
            # dictionary that the loop itself fills
            fills = {t.value.id for x in ast.walk(n) if isinstance(x, ast.Assign) for t in x.targets
                     if isinstance(t, ast.Subscript) and isinstance(t.value, ast.Name)}
            numbered = any(isinstance(x, ast.Call) and call_name(x) == "len" and x.args and isinstance(x.args[0], ast.Name) and x.args[0].id in fills
                           and any(isinstance(a, (ast.JoinedStr, ast.BinOp)) for a in source.ancestors(x)) for x in ast.walk(n))
            if "number_to_roman_like_numeral" in body_src or numbered:
                naming_loops.append(n)
    ctx.floor("C15.R4-naming-over-ordered", len(naming_loops), 2, "naming loops in namespace_to_flowir")
    for lp in naming_loops:
        it = lp.iter
        base = it.func.value if isinstance(it, ast.Call) and isinstance(it.func, ast.Attribute) and it.func.attr in ("items", "values", "keys") else it
        ok = not fo.is_unordered(base) and not (isinstance(it, ast.Call) and call_name(it) in ("set", "frozenset"))
        ctx.ob("C15.R4-naming-over-ordered", lp, ok,
               "names are numbered while iterating the insertion-ordered %s" % short(base, 40) if ok else
               "names are numbered while iterating an unordered collection: the same package gets different names per process",
               construct="for ... in %s (naming)" % short(it, 60))


    # ---------------- R6 -------------------------------------------------------------------------------
    from vlib import state
    n_fn = 0
    hits = []
    scalar_memos = []
    for rel in ("python/experiment/model/conf.py", "python/experiment/model/frontends/flowir.py", "python/experiment/model/frontends/dosini.py",
                "python/experiment/model/frontends/dsl.py", "python/experiment/model/graph.py", "python/experiment/model/storage.py",
                "python/experiment/model/data.py"):
        mm = ctx.repo.module(rel)
        classes = {c.name for c in ast.walk(mm.tree) if isinstance(c, ast.ClassDef)}
        for q, f in mm.functions.items():
            if q.count(".") > 1:
                continue    # nested functions are walked as part of their parents
            n_fn += 1
            for (node, attr, value, kind) in state.class_level_effects(f, classes):
                if kind in ("store",) and state.is_immutable_scalar(value):
                    scalar_memos.append((rel, q, attr))
                    continue
                hits.append((mm, q, node, attr, kind))
    # class-level collections (list/dict/set displays in a class body) are shared by every load: never mutated in place, directly
    # or through an uncopied local alias.  Frozen exception: the set that de-duplicates log messages.
    LOG_ONLY = {"_suppressed_warnings": "read only by suppressed_warning() to decide whether a message is logged again"}
    n_classes = 0
    for rel in ("python/experiment/model/conf.py", "python/experiment/model/frontends/flowir.py", "python/experiment/model/frontends/dosini.py",
                "python/experiment/model/frontends/dsl.py", "python/experiment/model/graph.py", "python/experiment/model/storage.py",
                "python/experiment/model/data.py"):
        mm = ctx.repo.module(rel)
        for c in ast.walk(mm.tree):
            if not isinstance(c, ast.ClassDef):
                continue
            consts = state.class_mutable_constants(c) - set(LOG_ONLY)
            if not consts:
                continue
            n_classes += 1
            for q, f in mm.functions.items():
                if q.count(".") > 1:
                    continue
                for (node, cname, how) in state.shared_constant_mutations(f, consts, {c.name}):
                    hits.append((mm, q, node, "%s.%s" % (c.name, cname), "in-place mutation (%s)" % how))
    # the exception stays an exception only while nothing but the logger reads it
    for rel in ("python/experiment/model/conf.py", "python/experiment/model/frontends/dosini.py"):
        mm = ctx.repo.module(rel)
        readers = {q for q, f in mm.functions.items() for x in ast.walk(f)
                   if isinstance(x, ast.Attribute) and x.attr in LOG_ONLY and q.count(".") <= 1}
        ok_ = all(q.split(".")[-1] == "suppressed_warning" for q in readers)
        ctx.ob("C15.R6-no-process-wide-memo", mm.tree, ok_,
               "the log de-duplication set is read by suppressed_warning() only" if ok_ else
               "the class-level set _suppressed_warnings is read outside suppressed_warning() (%s): it is process-wide state and may no "
               "longer be exempted" % sorted(readers), construct="%s: _suppressed_warnings is log-only" % rel.split("/")[-1], trivial=True)
    ctx.floor("C15.R6-no-process-wide-memo", n_classes, 5, "classes with class-level collections on the load path")
    for (mm, q, node, attr, kind) in hits:
        ctx.ob("C15.R6-no-process-wide-memo", node, False,
               "%s keeps process-wide state in the class attribute %s (%s of a mutable object): whatever is remembered there is shared by "
               "every later load in the process - and handed out by reference, so layering/patching the result of one load changes what "
               "the next load starts from; the same package and options then resolve differently than in a fresh process"
               % (q, attr, kind), construct="%s: %s %s" % (q, kind, attr))
    if not hits:
        ctx.ob("C15.R6-no-process-wide-memo", ctx.repo.module("python/experiment/model/conf.py").tree, True,
               "no function of the load path stores a mutable object into class-level state (%d functions; scalar memos: %s)"
               % (n_fn, sorted({a for _, _, a in scalar_memos}) or "none"), construct="class-level state of the load path is immutable")
    ctx.floor("C15.R6-no-process-wide-memo", n_fn, 500, "functions of the load-path modules inspected")

    from checks.c04 import check_scope_per_item
    n9 = check_scope_per_item(ctx, ctx.repo.module(FLOWIR), "C15.R9-scope-per-component",
                              "the components of a stage are visited in set order, so which sibling's variables a reference picks up - and with it the "
                              "resolved arguments and the memoization hash - depends on PYTHONHASHSEED")
    ctx.floor("C15.R9-scope-per-component", n9, 1, "per-component updates of a substitution scope in FlowIRConcrete.instance")
    check_module_memos(ctx, "C15.R6-no-process-wide-memo",
                       "the same package and options resolve differently than in a fresh process once the memo holds something stale")

    # ---------------- R7 -------------------------------------------------------------------------------
    # helper functions (nested or module-level) of dsl.py whose result is used as a key of a mapping
    dmod = ctx.repo.module(DSL)
    n_keys = 0
    for q, f in dmod.functions.items():
        if not any(isinstance(x, (ast.FunctionDef,)) for x in [f]):
            continue
        # names of callables whose result is used as a mapping key in f
        key_funcs = set()
        for n in source.walk_own(f):
            keys = []
            if isinstance(n, ast.Subscript):
                keys.append(n.slice)
            if isinstance(n, ast.Compare) and len(n.ops) == 1 and isinstance(n.ops[0], (ast.In, ast.NotIn)):
                keys.append(n.left)
            for k in keys:
                if isinstance(k, ast.Name):
                    for v in match.assigned_value(f, k.id):
                        if isinstance(v, ast.Call) and isinstance(v.func, ast.Name):
                            key_funcs.add(v.func.id)
                elif isinstance(k, ast.Call) and isinstance(k.func, ast.Name):
                    key_funcs.add(k.func.id)
        for kf in sorted(key_funcs):
            helper = dmod.functions.get("%s.%s" % (q, kf)) or dmod.functions.get(kf)
            if helper is None:
                continue
            params = {a.arg for a in helper.args.args}
            rets = [r.value for r in source.walk_own(helper) if isinstance(r, ast.Return) and r.value is not None]
            # iterations over a parameter (or its .items()/.keys()/.values()) anywhere in the helper
            its = []
            for x in ast.walk(helper):
                cands = []
                if isinstance(x, ast.For):
                    cands.append(x.iter)
                if isinstance(x, (ast.GeneratorExp, ast.ListComp, ast.SetComp, ast.DictComp)):
                    cands.extend(g.iter for g in x.generators)
                for it in cands:
                    base = it
                    if isinstance(base, ast.Call) and call_name(base) == "sorted" and base.args:
                        base = base.args[0]
                    if isinstance(base, ast.Call) and isinstance(base.func, ast.Attribute) and base.func.attr in ("items", "keys", "values"):
                        base = base.func.value
                    if isinstance(base, ast.Name) and base.id in params:
                        its.append((x, it))
            if not its or not rets:
                continue
            n_keys += 1
            ctx.analysed(helper)
            order_free = all(isinstance(r, ast.Call) and call_name(r) in ("frozenset", "set") for r in rets)
            unsorted = [(x, it) for (x, it) in its if not (isinstance(it, ast.Call) and call_name(it) == "sorted")
                        and not (isinstance(x, (ast.GeneratorExp, ast.ListComp, ast.SetComp)) and any(
                            isinstance(a_, ast.Call) and call_name(a_) == "sorted" and a_.args and a_.args[0] is x for a_ in source.ancestors(x)))]
            ok = order_free or not unsorted
            ctx.ob("C15.R7-identity-keys-are-canonical", unsorted[0][1] if unsorted else helper, ok,
                   "%s, whose result keys a mapping in %s, enumerates its argument in sorted order" % (kf, q) if ok else
                   "%s builds the key under which %s looks a mapping up by iterating its argument in insertion order (%s): two equal mappings "
                   "written with their keys in a different order get different identities - e.g. equal component environments are "
                   "registered as env0 and env1, and a component's command.environment changes with the key order of the document"
                   % (kf, q, short(unsorted[0][1], 40)), construct="%s.%s enumerates its argument in sorted order" % (q, kf))
    ctx.floor("C15.R7-identity-keys-are-canonical", n_keys, 1, "helpers of dsl.py whose result keys a mapping")

    # ---------------- R12: queries are pure (the C08 effect analysis re-used) ------------------------------
    from checks import c08
    from vlib.report import Ctx as _Ctx
    sub_ctx = _Ctx("C08", ctx.tier, ctx.repo)
    c08.run(sub_ctx)
    n12 = 0
    for o in sub_ctx.obligations:
        if o["rule"] in ("C08.R1-write-invalidate", "C08.R2-alias-handout", "C08.R3-private-values"):
            o2 = dict(o)
            o2["rule"] = "C15.R12-queries-do-not-write-the-description"
            o2["what"] = "[%s] %s" % (o["rule"], o["what"]) + ("" if o["ok"] else
                          " - with components resolved in set order, whichever component comes first under the process's hash seed leaves its "
                          "values in the shared description and the others inherit them")
            ctx.obligations.append(o2)
            n12 += 1
    ctx.functions_analysed |= sub_ctx.functions_analysed
    ctx.floor("C15.R12-queries-do-not-write-the-description", n12, 25, "effect obligations re-used from the C08 analysis")

    # ---------------- R13: positions in document mappings ---------------------------------------------------
    dslm = ctx.repo.module("python/experiment/model/frontends/dsl.py")
    map_fields: Set[str] = set()
    for cn_, cls_ in dslm.classes.items():
        for st_ in cls_.body:
            if isinstance(st_, ast.AnnAssign) and isinstance(st_.target, ast.Name) and "Dict[" in source.src(st_.annotation):
                map_fields.add(st_.target.id)
    ctx.floor("C15.R13-positions-in-document-mappings-are-not-used", len(map_fields), 3, "mapping-typed fields of the pydantic models of dsl.py")

    def is_map_field(e: ast.AST) -> bool:
        return isinstance(e, ast.Attribute) and e.attr in map_fields

    def map_ordered(fn_: ast.AST, e: ast.AST, depth: int = 0) -> bool:
        """a sequence whose order is the key order of a mapping field of the document"""
        if depth > 3:
            return False
        if isinstance(e, ast.Call):
            cn_ = call_name(e) or ""
            if cn_ in ("list", "tuple", "enumerate") and e.args and (is_map_field(e.args[0]) or map_ordered(fn_, e.args[0], depth + 1)):
                return True
            if last_attr(e) in ("keys", "items", "values") and is_map_field(e.func.value):
                return True
        if isinstance(e, (ast.ListComp, ast.GeneratorExp)) and e.generators and (
                is_map_field(e.generators[0].iter) or map_ordered(fn_, e.generators[0].iter, depth + 1)):
            return True
        if isinstance(e, ast.Name):
            return any(map_ordered(fn_, v, depth + 1) for v in match.assigned_value(fn_, e.id) if v is not e)
        return False
    n13 = 0
    for q_, fn_ in dslm.functions.items():
        for c_ in source.calls_in(fn_, include_nested=True):
            if last_attr(c_) == "index" and isinstance(c_.func, ast.Attribute) and map_ordered(fn_, c_.func.value):
                n13 += 1
                ctx.analysed(fn_)
                ctx.ob("C15.R13-positions-in-document-mappings-are-not-used", c_, False,
                       "%s uses the position of a key in a mapping of the document (%s): two equal documents that list the keys of that mapping in a "
                       "different order are traversed differently - duplicate step names are numbered ('work', 'work-I') and environments "
                       "('env0', 'env1') in the order the scopes are met, so component names, command lines and memoization hashes differ" % (
                           q_, short(c_, 60)),
                       construct="%s: position in a document mapping" % q_)
    ctx.ob("C15.R13-positions-in-document-mappings-are-not-used", dslm.tree, True,
           "%d uses of a position in a document mapping found in dsl.py (mapping fields: %s)" % (n13, ", ".join(sorted(map_fields))),
           construct="positions in document mappings in dsl.py", trivial=True)

    # ---------------- R14: the merge primitive of the layering (C04.R3 re-used) ----------------------------
    from checks import c04
    sub4 = _Ctx("C04", ctx.tier, ctx.repo)
    c04.run(sub4)
    n14 = 0
    for o in sub4.obligations:
        if o["rule"] == "C04.R3-new-wins":
            o2 = dict(o)
            o2["rule"] = "C15.R14-the-later-layer-wins-whatever-its-value"
            o2["what"] = "[%s] %s" % (o["rule"], o["what"]) + ("" if o["ok"] else
                          " - layer_many_variable_files([first, last]) then keeps first's value wherever last sets the variable to 0, false or ''")
            ctx.obligations.append(o2)
            n14 += 1
    ctx.functions_analysed |= sub4.functions_analysed
    ctx.floor("C15.R14-the-later-layer-wins-whatever-its-value", n14, 4, "obligations on override_object re-used from the C04 analysis")
    lm = ctx.repo.module("python/experiment/model/conf.py").functions.get("FlowIRExperimentConfiguration.layer_many_variable_files")
    ctx.require(lm is not None, "anchor missing: layer_many_variable_files")
    uses = any(isinstance(x_, ast.Attribute) and x_.attr == "override_object" for x_ in ast.walk(lm))      # called directly or through an alias
    ctx.ob("C15.R14-the-later-layer-wins-whatever-its-value", lm, uses,
           "layer_many_variable_files layers the files through override_object" if uses else
           "layer_many_variable_files no longer layers the files through override_object: the rule above does not cover the merge it uses",
           construct="layer_many_variable_files -> override_object")
