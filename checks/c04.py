"""C04 - resolved component configuration follows the documented layering order.  See DESIGN.md section C04."""
from __future__ import annotations

import ast
from typing import Dict, List, Optional, Set, Tuple

from vlib import flow, match, source
from vlib.cfg import CFG, Node, own_calls
from vlib.source import AnalysisError, call_name, dotted, last_attr, short

FLOWIR = "python/experiment/model/frontends/flowir.py"
CONF = "python/experiment/model/conf.py"

VAR_LAYERS = ["get_default_global_variables", "get_default_stage_variables", "get_platform_global_variables",
              "get_platform_stage_variables", "component.variables", "component.override.variables"]
OPT_LAYERS = ["inject_default_values_to_component", "get_default_global_blueprint", "get_default_stage_blueprint",
              "get_platform_blueprint", "get_platform_stage_blueprint", "get_component", "component.override"]


def handler_swallow_paths(cfg: CFG, handler: ast.ExceptHandler, allowed_edges) -> List[Node]:
    """Nodes outside the handler reachable from it without taking an allowed edge and without raising."""
    hn = cfg.nodes_of(handler)
    inside = {id(x) for x in ast.walk(handler)}
    blocked = {(n.id, l) for n, l in allowed_edges}
    r = cfg.reach(hn, blocked_edges=blocked, ignore_labels=("raise", "exc"), include_starts=False)
    out = []
    for nid in r:
        n = cfg.nodes[nid]
        if n.kind in ("xexit", "dispatch"):
            continue
        if n.ast is None or id(n.ast) not in inside:
            out.append(n)
    return out


def schema_leaves(d: ast.Dict, prefix: Tuple[str, ...] = ()) -> Dict[Tuple[str, ...], ast.AST]:
    out: Dict[Tuple[str, ...], ast.AST] = {}
    for k, v in zip(d.keys, d.values):
        name = None
        if isinstance(k, ast.Call) and k.args and isinstance(k.args[0], ast.Constant):
            name = k.args[0].value
        elif isinstance(k, ast.Constant):
            name = k.value
        if not isinstance(name, str):
            continue
        if isinstance(v, ast.Dict):
            out.update(schema_leaves(v, prefix + (name,)))
        else:
            out[prefix + (name,)] = v
    return out


def admits(v: ast.AST, tname: str) -> bool:
    if isinstance(v, ast.Name) and v.id == tname:
        return True
    if isinstance(v, ast.Call) and call_name(v) == "ValidateOr":
        return any(isinstance(a, ast.Name) and a.id == tname for a in v.args)
    return False


def STBU_NAME(it: ast.AST) -> str:
    return match.role(it, lambda v: isinstance(v, ast.IfExp) and isinstance(v.test, ast.Name) and v.test.id == "is_primitive", "safe_to_be_unknown")


def undefined_variable_rules(ctx, m, gcc, r5: str, r8: str) -> None:
    """R5 + R8 of C04 (an undefined variable is an error; interpolate is a fixpoint), parametrised on the rule ids so
    that C11 can re-use the analysis for its 'undefined variable => rejected' clause."""
    # the detector is CALLED for every query that substitutes: FlowIR.fill_in is the only place of get_component_configuration where an
    # undefined variable is noticed, so its call must not depend on the variables that happen to be visible (an 'if variables:' in front
    # of it - "nothing to substitute" - leaves '%(undefined)s' in place for a component that sees no variable in any scope)
    fills = [c_ for c_ in source.calls_in(gcc, include_nested=False) if last_attr(c_) == "fill_in" and len(c_.args) >= 2]
    ctx.require(bool(fills), "anchor missing: the FlowIR.fill_in call of get_component_configuration")
    for c_ in fills:
        ctxv = c_.args[1]
        guards = [x for x in source.ancestors(c_) if isinstance(x, ast.If) and isinstance(ctxv, ast.Name)
                  and any(isinstance(y, ast.Name) and y.id == ctxv.id for y in ast.walk(x.test))]
        ctx.ob(r5, guards[0].test if guards else c_, not guards,
               "the substitution (and with it the detection of undefined variables) does not depend on which variables are visible" if not guards else
               "get_component_configuration calls FlowIR.fill_in only under a test of the visible variables (%s): a component that sees no variable in any "
               "scope keeps '%%(undefined)s' in its configuration instead of raising FlowIRVariableUnknown - the result is cached, and validate() no "
               "longer reports the undefined variable" % short(guards[0].test, 40),
               construct="get_component_configuration: fill_in is called whatever the visible variables")

    # ---------------- R5 -------------------------------------------------------------------------------
    it = m.func("FlowIR.interpolate")
    ctx.analysed(it)
    c5 = CFG(it)
    ign = match.test_nodes(c5, lambda t: match.polarity(t, lambda e: isinstance(e, ast.Name) and e.id == "ignore_errors"))
    prim = match.test_nodes(c5, lambda t: match.polarity(t, lambda e: isinstance(e, ast.Name) and e.id == "is_primitive"))
    handlers = [h for h in ast.walk(it) if isinstance(h, ast.ExceptHandler) and h.type is not None and "FlowIRVariableUnknown" in source.src(h.type)
                and source.enclosing_def(h) is it]
    ctx.floor(r5, len(handlers), 2, "FlowIRVariableUnknown handlers in interpolate")
    # the chain of variables referring to variables is followed to its end: the recursion of interpolate (and of its nested resolver) is
    # not cut off by a counter - a parameter / local that the recursive call passes on as '<itself> + <constant>' and that a test compares
    counters = set()
    fns = [it] + [f_ for q_, f_ in m.functions.items() if q_.startswith("FlowIR.interpolate.")]
    for f_ in fns:
        for c_ in ast.walk(f_):
            if isinstance(c_, ast.Call) and last_attr(c_) == "interpolate":
                for v_ in list(c_.args) + [k.value for k in c_.keywords]:
                    if isinstance(v_, ast.BinOp) and isinstance(v_.op, (ast.Add, ast.Sub)) and isinstance(v_.left, ast.Name) and isinstance(v_.right, ast.Constant):
                        counters.add(v_.left.id)
    caps = [t for f_ in fns for t in ast.walk(f_) if isinstance(t, ast.Compare) and any(isinstance(x, ast.Name) and x.id in counters for x in ast.walk(t))]
    ctx.ob(r8, caps[0] if caps else it, not caps,
           "the recursion of interpolate is not bounded by a depth counter" if not caps else
           "interpolate passes %s on as '<counter> + 1' and tests it (%s): a chain of DEFINED variables that is longer than the cap is not "
           "substituted to its end - the query raises instead of returning the value the layering defines" % (
               ", ".join(sorted(counters)), short(caps[0], 50)), construct="interpolate: no depth cap on chains of variables")
    for h in handlers:
        bad = handler_swallow_paths(c5, h, ign + prim)
        ctx.ob(r5, h, not bad,
               "an unknown variable is swallowed only under ignore_errors or in primitive mode" if not bad else
               "this handler can swallow FlowIRVariableUnknown without ignore_errors / primitive mode (continues at line %d): "
               "the reference to an undefined variable is left in place instead of being reported" % bad[0].lineno)
        # in primitive mode only names in safe_to_be_unknown
        prim_in_h = [(n, l) for n, l in prim if any(n.ast is x for x in ast.walk(h))]
        for (pn, pl) in prim_in_h:
            succ = [mm for (mm, l2) in pn.succ if l2 == pl]
            okp = bool(succ) and succ[0].kind == "test" and STBU_NAME(it) in source.names_in(succ[0].ast)
            ctx.ob(r5, pn.ast, okp,
                   "primitive mode tolerates only variables in safe_to_be_unknown" if okp else
                   "primitive mode tolerates any unknown variable (no membership test in safe_to_be_unknown)")
    # roles in interpolate: the scan position = the name passed as pos to <pattern>.finditer(text, pos); the matches of one
    # scan = the local bound to sorted(<finditer>); the tolerated names = the local bound to 'set([..]) if is_primitive else set()'
    SFROM = {c.args[1].id for c in source.calls_in(it) if last_attr(c) == "finditer" and len(c.args) >= 2 and isinstance(c.args[1], ast.Name)}
    MATCHES = set(match.locals_where(it, lambda v: any(isinstance(c, ast.Call) and last_attr(c) == "finditer" for c in ast.walk(v))))
    STBU = match.role(it, lambda v: isinstance(v, ast.IfExp) and isinstance(v.test, ast.Name) and v.test.id == "is_primitive", "safe_to_be_unknown")
    MATCHVAR = set(match.locals_where(it, lambda v: isinstance(v, ast.Subscript) and isinstance(v.value, ast.Name) and v.value.id in MATCHES))
    stbu = match.assigned_value(it, STBU)
    ok = len(stbu) == 1 and isinstance(stbu[0], ast.IfExp) and isinstance(stbu[0].test, ast.Name) and stbu[0].test.id == "is_primitive" \
        and source.src(stbu[0].body).replace('"', "'") in ("set(['replica'])", "{'replica'}") and source.src(stbu[0].orelse) in ("set()",)
    ctx.ob(r5, stbu[0] if stbu else it, ok, "only 'replica' may stay unknown, and only for primitive graphs" if ok else
           "safe_to_be_unknown is no longer {'replica'} for primitive graphs / empty otherwise")
    # ---------------- R8 -------------------------------------------------------------------------------
    ust = match.test_nodes(c5, lambda t: "T" if (match.compare_parts(t) and isinstance(match.compare_parts(t)[0], ast.Name)
                                                 and match.compare_parts(t)[0].id == "use_symbol_table" and isinstance(match.compare_parts(t)[1], ast.Is)
                                                 and isinstance(match.compare_parts(t)[2], ast.Constant) and match.compare_parts(t)[2].value is False) else None)
    adv = [n for n in c5.nodes if n.kind == "stmt" and isinstance(n.ast, (ast.Assign, ast.AugAssign))
           and any(isinstance(t, ast.Name) and t.id in SFROM for t in (n.ast.targets if isinstance(n.ast, ast.Assign) else [n.ast.target]))
           and not (isinstance(n.ast, ast.Assign) and isinstance(n.ast.value, ast.Constant) and n.ast.value.value == 0)]
    ctx.floor(r8, len(adv), 2, "advances of the scan position in interpolate")
    tol = ign + prim + ust
    for a in adv:
        ok_guard = bool(tol) and match.only_via_edges(c5, a, tol)
        v = a.ast.value
        ok_val = isinstance(a.ast, ast.Assign) and isinstance(v, ast.BinOp) and isinstance(v.op, ast.Add) \
            and isinstance(v.left, ast.Call) and last_attr(v.left) == "start" and isinstance(v.left.func.value, ast.Name) \
            and v.left.func.value.id in MATCHVAR and isinstance(v.right, ast.Constant) and v.right.value == 1
        ctx.ob(r8, a.ast, ok_guard and ok_val,
               "the scan position moves one character past a reference that is deliberately left unresolved" if ok_guard and ok_val else
               ("the scan position is advanced after a successful substitution / without a tolerance guard: a reference that only "
                "comes into being through the substitution and starts to its left (%%(%%(mode)s_opts)s -> %%(fast_opts)s) is never "
                "looked at again - a defined variable stays in the text and an undefined one is not reported" if not ok_guard else
                "the scan position jumps by %s instead of one character: references inside the skipped text are not resolved" % short(v, 40)),
               construct=short(a.ast, 60) + " <- tolerance guard, +1")
    # the loops end only when a scan from the current position finds nothing
    loops = [n for n in source.walk_own(it) if isinstance(n, ast.While) and isinstance(n.test, ast.Constant) and n.test.value is True]
    for lp in loops:
        brk = [b for b in ast.walk(lp) if isinstance(b, ast.Break)]
        okb = bool(brk) and all(isinstance(source.parent(b), ast.If) and isinstance(source.parent(b).test, ast.UnaryOp)
                                and isinstance(source.parent(b).test.op, ast.Not) and isinstance(source.parent(b).test.operand, ast.Name)
                                and source.parent(b).test.operand.id in MATCHES for b in brk)
        ctx.ob(r8, lp, okb, "the substitution loop ends only when no reference is found" if okb else
               "the substitution loop of interpolate can end while references remain", construct="while True: ... if not matches: break")

    fi = m.func("FlowIR.fill_in")
    ctx.analysed(fi)
    c6 = CFG(fi)
    ign6 = match.test_nodes(c6, lambda t: match.polarity(t, lambda e: isinstance(e, ast.Name) and e.id == "ignore_errors"))
    for h in [h for h in ast.walk(fi) if isinstance(h, ast.ExceptHandler)]:
        bad = handler_swallow_paths(c6, h, ign6)
        ctx.ob(r5, h, not bad, "fill_in re-raises unless ignore_errors" if not bad else
               "fill_in swallows the unknown-variable error without ignore_errors")
    for c in source.calls_in(gcc):
        if last_attr(c) == "fill_in":
            kw = {k.arg: k.value for k in c.keywords}
            ok = "ignore_errors" not in kw or (isinstance(kw["ignore_errors"], ast.Constant) and kw["ignore_errors"].value is False)
            ctx.ob(r5, c, ok, "the resolver calls fill_in without ignore_errors" if ok else
                   "get_component_configuration resolves with ignore_errors set: undefined variables are left in place")



def novel_keys_copied(oo: ast.AST):
    """(ok, node, why): override_object copies every key that only the higher layer defines, unconditionally - as a loop over the
    key difference whose body stores new[key] at its top level, or as update()/comprehension over that difference without a
    filter.  Shared by C04.R3 (the layer wins) and C11.R7 (the validator sees every key of the document)."""
    KNOVEL = match.role(oo, lambda v: (isinstance(v, ast.Call) and last_attr(v) == "difference") or (
        isinstance(v, ast.BinOp) and isinstance(v.op, ast.Sub) and "keys" in source.src(v)), "keys_novel")
    loops = [n for n in source.walk_own(oo) if isinstance(n, ast.For) and isinstance(n.iter, ast.Name) and n.iter.id == KNOVEL]
    for lp in loops:
        if not isinstance(lp.target, ast.Name):
            continue
        k = lp.target.id
        top = [s_ for s_ in lp.body if isinstance(s_, ast.Assign) and source.src(s_.value) == "new[%s]" % k]
        if top:
            return True, lp, ""
        nested = [x for x in ast.walk(lp) if isinstance(x, ast.Assign) and source.src(x.value) == "new[%s]" % k]
        if nested:
            conds = [a for a in source.ancestors(nested[0]) if isinstance(a, ast.If) and any(a is y for y in ast.walk(lp))]
            return False, nested[0], "the copy is conditional on %s" % (short(conds[0].test, 50) if conds else "something")
    comps = [c for c in ast.walk(oo) if isinstance(c, (ast.DictComp,)) and any(
        isinstance(g.iter, ast.Name) and g.iter.id == KNOVEL for g in c.generators)]
    for c in comps:
        if any(g.ifs for g in c.generators):
            return False, c, "the comprehension over the novel keys filters them (%s)" % short(c.generators[0].ifs[0], 50)
        return True, c, ""
    return False, oo, "no copy of the keys that only the higher layer defines was found"


MODE_FLAGS = ("ignore_errors", "is_primitive", "use_symbol_table", "in_place", "raw")


def check_flags_through_recursion(ctx, fl) -> None:
    """A resolver that walks nested containers calls itself for the children.  The mode flags of the call (strict / lenient, primitive ..)
    must reach the children unchanged: each self-recursive call binds a flag parameter - by keyword or by POSITION, resolved against the
    signature - to the caller's parameter of the same name, and fill_in (the entry of every strict query) binds both of its flags."""
    RID = "C04.R13-strictness-passes-through-recursion"
    n = 0
    for q, f in sorted(fl.functions.items()):
        name = q.split(".")[-1]
        params = [a.arg for a in f.args.args]
        flags = [p_ for p_ in params if p_ in MODE_FLAGS]
        if not flags:
            continue
        for c in source.calls_in(f, include_nested=False):
            is_self = (isinstance(c.func, ast.Name) and c.func.id == name) or (
                isinstance(c.func, ast.Attribute) and c.func.attr == name and isinstance(c.func.value, ast.Name)
                and c.func.value.id in ("cls", "self", q.split(".")[0]))
            if not is_self:
                continue
            ps = params[1:] if params and params[0] in ("cls", "self") and isinstance(c.func, ast.Attribute) else params
            bound = {}
            for i, a in enumerate(c.args):
                if i < len(ps) and not isinstance(a, ast.Starred):
                    bound[ps[i]] = a
            for k in c.keywords:
                if k.arg:
                    bound[k.arg] = k.value
            ctx.analysed(f)
            for fl_ in flags:
                if fl_ not in bound:
                    if name == "fill_in":
                        n += 1
                        ctx.ob(RID, c, False, "the recursive call of fill_in does not pass %s on: the children are resolved in the default mode whatever "
                               "the caller asked for" % fl_, construct="%s: recursive call <- %s" % (name, fl_))
                    continue
                n += 1
                v = bound[fl_]
                ok = isinstance(v, ast.Name) and v.id == fl_
                ctx.ob(RID, c, ok, "%s reaches the children unchanged" % fl_ if ok else
                       "the recursive call of %s binds %s to %s (arguments are matched against the signature %s): below this point the mode is no "
                       "longer the caller's - with a label string bound to ignore_errors every 'ignore_errors is False' test fails, an undefined "
                       "variable inside a list-valued option (references, executors, shutdownOn ..) is swallowed and '%%(name)s' stays in the "
                       "resolved configuration" % (name, fl_, short(v, 30), "(%s)" % ", ".join(ps)), construct="%s: recursive call <- %s" % (name, fl_))
    ctx.floor(RID, n, 4, "mode flags bound by self-recursive calls of the resolvers in flowir.py")


def check_lookups_are_returned(ctx, mods) -> None:
    """A query method hands back what it looked up: no statement of the configuration modules is a bare call of a getter
    (`<obj>.get_*(..)` as an expression statement) - the value is computed and dropped, the method falls through and answers None."""
    RID = "C04.R15-a-looked-up-value-is-returned"
    n = 0
    for m in mods:
        for q, f in sorted(m.functions.items()):
            n += 1
            for st in source.walk_own(f):
                if isinstance(st, ast.Expr) and isinstance(st.value, ast.Call) and (last_attr(st.value) or "").startswith("get_") \
                        and isinstance(st.value.func, ast.Attribute):
                    ctx.analysed(f)
                    ctx.ob(RID, st, False,
                           "%s calls %s and drops the result: on this branch the method answers None instead of the value of the variable / option "
                           "the layering defines" % (q, short(st.value, 60)), construct="%s: result of %s is used" % (q.split(".")[-1], last_attr(st.value)))
    ctx.floor(RID, n, 200, "functions of conf.py / flowir.py / graph.py scanned for dropped getter results")
    ctx.ob(RID, mods[0].tree, True, "%d functions scanned, no getter result is dropped" % n, trivial=True, construct="getter results are used")


def check_scopes_unshared(ctx, fl) -> None:
    """The setters write through variables[<platform>]['global'] and variables[<platform>]['stages'][<n>].  A document may give two
    scopes the SAME dictionary object (YAML anchors; deep copies keep the sharing), so the loader rebinds every scope dictionary to a
    fresh one: `<scope> = dict(<scope>)` for the global scope of each platform and for each stage of each platform."""
    RID = "C04.R14-one-dictionary-per-variable-scope"
    idv = fl.func("FlowIR.inject_default_values")
    ctx.analysed(idv)

    def label(e: ast.AST) -> Optional[str]:
        t = (dotted(e) or "").split(".")[-1] if not isinstance(e, ast.Constant) else str(e.value)
        return {"LabelGlobal": "global", "global": "global", "LabelStages": "stages", "stages": "stages"}.get(t)

    def fresh_of(v: ast.AST) -> Optional[ast.AST]:
        if isinstance(v, ast.Call) and (call_name(v) or "").split(".")[-1] in ("dict", "copy", "deepcopy", "deep_copy") and len(v.args) == 1:
            return v.args[0]
        return None
    rebinds = [a for a in source.walk_own(idv) if isinstance(a, ast.Assign) and len(a.targets) == 1 and isinstance(a.targets[0], ast.Subscript)
               and fresh_of(a.value) is not None and source.src(fresh_of(a.value)) == source.src(a.targets[0])
               and any(isinstance(x, ast.For) for x in source.ancestors(a))]
    glob = [a for a in rebinds if label(a.targets[0].slice) == "global"]
    # a stage entry: <T>[<k>] = dict(<T>[<k>]) with k the variable of a loop over T, T being (a copy of) <..>[stages]
    stage = []
    for a in rebinds:
        t = a.targets[0]
        if not isinstance(t.slice, ast.Name):
            continue
        loops = [x for x in source.ancestors(a) if isinstance(x, ast.For) and isinstance(x.target, ast.Name) and x.target.id == t.slice.id]
        if not loops:
            continue
        cont = t.value
        srcs = [cont] + ([v for v in match.assigned_value(idv, cont.id)] if isinstance(cont, ast.Name) else [])
        if any(isinstance(y, ast.Subscript) and label(y.slice) == "stages" for v in srcs for y in ast.walk(v)):
            stage.append(a)
    for kind, found in (("global", glob), ("stage", stage)):
        ok = bool(found)
        ctx.ob(RID, found[0] if found else idv, ok,
               "every platform's %s variables are rebound to a dictionary of their own when the description is loaded" % kind if ok else
               "the loader does not give every %s scope a dictionary of its own: two scopes that share one object (YAML anchors: 'stages: {0: &s "
               "{..}, 1: *s}') both change when a variable of one of them is set - user variables supplied for stage 0 also apply to stage 1" % kind,
               construct="inject_default_values: <%s scope> = dict(<%s scope>)" % (kind, kind))


def check_scope_per_item(ctx, fl, rule: str, consequence: str, funcs=("FlowIRConcrete.instance",)) -> int:
    """A dictionary that is used as the substitution scope (context= of fill_in / interpolate) inside a loop AND receives the loop
    item's own variables through .update() must be bound afresh inside that loop's body: every definition that reaches the update
    lies inside the body of the innermost loop whose item the update depends on.  Shared by C04.R12 and C15.R9."""
    n = 0
    for q in funcs:
        f = fl.func(q)
        ctx.analysed(f)
        cfg = CFG(f)
        loops = [lp for lp in source.walk_own(f) if isinstance(lp, ast.For)]
        for lp in loops:
            body_nodes = {id(x) for st in lp.body for x in ast.walk(st)}
            tvars = {x.id for x in ast.walk(lp.target) if isinstance(x, ast.Name)}
            # locals that depend on the loop item (assigned inside the body from expressions mentioning the target, transitively)
            dep = set(tvars)
            changed = True
            while changed:
                changed = False
                for st in lp.body:
                    for a in ast.walk(st):
                        if isinstance(a, ast.Assign) and len(a.targets) == 1 and isinstance(a.targets[0], ast.Name) and a.targets[0].id not in dep \
                                and any(isinstance(x, ast.Name) and x.id in dep for x in ast.walk(a.value)):
                            dep.add(a.targets[0].id)
                            changed = True
            for st in lp.body:
                for c in ast.walk(st):
                    if not (isinstance(c, ast.Call) and last_attr(c) == "update" and isinstance(c.func.value, ast.Name) and c.args):
                        continue
                    x = c.func.value.id
                    if not any(isinstance(y, ast.Name) and y.id in dep for y in ast.walk(c.args[0])):
                        continue
                    # innermost loop only: skip when a nested loop inside lp also contains this call and depends on its own item
                    inner = [l2 for l2 in loops if l2 is not lp and id(l2) in body_nodes and any(c is z for z in ast.walk(l2))
                             and any(isinstance(y, ast.Name) and y.id in {t.id for t in ast.walk(l2.target) if isinstance(t, ast.Name)} for y in ast.walk(c.args[0]))]
                    if inner:
                        continue
                    # is x a substitution scope inside this loop?
                    as_scope = any(isinstance(k, ast.Call) and last_attr(k) in ("fill_in", "interpolate", "replace_strings", "expand_vars") and (any(
                        kw.arg in ("context", "variables") and isinstance(kw.value, ast.Name) and kw.value.id == x for kw in k.keywords)
                        or (len(k.args) >= 2 and isinstance(k.args[1], ast.Name) and k.args[1].id == x))
                        for st2 in lp.body for k in ast.walk(st2))
                    if not as_scope:
                        continue
                    n += 1
                    at = [nd for nd in cfg.nodes if nd.kind == "stmt" and nd.ast is not None and any(c is z for z in ast.walk(nd.ast))]
                    rd = flow.reaching_defs(cfg, x).get(at[0].id, frozenset()) if at else frozenset({-1})
                    outside = [d for d in rd if d < 0 or id(cfg.nodes[d].ast) not in body_nodes]
                    ok = not outside
                    ctx.ob(rule, c, ok,
                           "%s: the scope %s is created inside the loop over %s before the item's variables are layered on it" % (q, x, source.src(lp.iter)[:40]) if ok else
                           "%s layers the variables of one item of %s on the scope %s, which was created OUTSIDE that loop (line %s) and is used to "
                           "substitute references for every item: %s" % (
                               q, source.src(lp.iter)[:40], x, ", ".join(str(getattr(cfg.nodes[d].ast, "lineno", "?")) for d in outside if d >= 0) or "parameter", consequence),
                           construct="%s: %s.update(<item variables>) <- scope created per item" % (q, x))
    return n


def check_platform_threaded(ctx, fl) -> None:
    rule = "C04.R11-requested-platform-reaches-every-layer"
    cls = fl.cls("FlowIRConcrete")
    methods = {st.name: st for st in cls.body if isinstance(st, ast.FunctionDef)}

    def plat_index(f):
        names = [a.arg for a in f.args.args]
        return names.index("platform") - 1 if "platform" in names else None
    n = 0
    for name, f in methods.items():
        if plat_index(f) is None:
            continue
        for c in source.calls_in(f, include_nested=True):
            cn = call_name(c) or ""
            if not (cn.startswith("self.") and cn[5:] in methods):
                continue
            pi = plat_index(methods[cn[5:]])
            if pi is None:
                continue
            n += 1
            ctx.analysed(f)
            passed = len(c.args) > pi or any(k.arg == "platform" or k.arg is None for k in c.keywords)
            ctx.ob(rule, c, passed,
                   "%s passes a platform to %s" % (name, cn[5:]) if passed else
                   "%s(platform=..) calls %s without a platform: the callee falls back on the active platform of the object, so for a query "
                   "about another platform this layer is read from the wrong one (the requested platform's values are dropped, the active "
                   "platform's leak in) - and the result is cached under the requested platform's label" % (name, cn[5:]),
                   construct="FlowIRConcrete.%s -> self.%s(.. platform ..)" % (name, cn[5:]))
    ctx.floor(rule, n, 20, "calls between platform-parametrised methods of FlowIRConcrete")


def option_layer_names(gcc) -> Tuple[str, Dict[str, str]]:
    """(name of the folded list, local -> accessor it was bound from) in get_component_configuration"""
    name_src: Dict[str, str] = {}
    for n in source.walk_own(gcc):
        if isinstance(n, ast.Assign) and len(n.targets) == 1 and isinstance(n.targets[0], ast.Name) and isinstance(n.value, ast.Call):
            la = last_attr(n.value) or ""
            if la.startswith("get_") and "blueprint" in la:
                name_src[n.targets[0].id] = la
    fold_loops = [a for c in source.calls_in(gcc) if last_attr(c) == "override_object" and len(c.args) == 2
                  for a in source.ancestors(c) if isinstance(a, ast.For) and isinstance(a.iter, ast.Name)]
    return (fold_loops[0].iter.id if fold_loops else "sequence"), name_src


def check_layers_unconditional(ctx, gcc, SEQ: str, name_src: Dict[str, str], rule: str) -> None:
    """The blueprint layers and the component itself enter the folded list on EVERY path (the built-in defaults and the platform override
    are legitimately conditional).  Shared with C07: the stored description carries fully layered components, because after the store the
    platform is folded into 'default' and the four blueprint layers can no longer be told apart."""
    n = 0
    for st in source.walk_own(gcc):
        elts = None
        if isinstance(st, ast.AugAssign) and isinstance(st.target, ast.Name) and st.target.id == SEQ and isinstance(st.value, ast.List):
            elts = st.value.elts
        elif isinstance(st, ast.Expr) and isinstance(st.value, ast.Call) and last_attr(st.value) in ("append", "extend") and dotted(st.value.func.value) == SEQ and st.value.args:
            a0 = st.value.args[0]
            elts = a0.elts if isinstance(a0, (ast.List, ast.Tuple)) else [a0]
        if not elts:
            continue
        bps = [e.id for e in elts if isinstance(e, ast.Name) and e.id in name_src]
        if not bps:
            continue
        n += 1
        conds = [a for a in source.ancestors(st) if isinstance(a, (ast.If, ast.IfExp, ast.Try, ast.While, ast.For)) and any(a is x for x in ast.walk(gcc))]
        ok = not conds
        ctx.ob(rule, st, ok,
               "the blueprint layers %s are folded on every path" % bps if ok else
               "the blueprint layers %s are folded only under a condition (%s): a caller that switches them off gets components without the "
               "options they inherit - the stored instance description then relies on the FOLDED blueprint (platform merged into default), "
               "where a default-stage option beats a platform-global one: the reloaded experiment resolves backend/numberThreads differently "
               "from the experiment that wrote it" % (bps, short(conds[0].test, 40) if hasattr(conds[0], "test") else type(conds[0]).__name__),
               construct="get_component_configuration: blueprint layers folded unconditionally")
    ctx.floor(rule, n, 1, "statements that add blueprint layers to the folded sequence")


def check_user_layer_every_platform(ctx, pv, rule: str) -> None:
    """The user's variables are written into the stage variables of every platform of the description (the platform argument of
    the setter is the variable of an enclosing loop over the description's platforms) and for every stage.  Shared with C07: the
    stored description is flattened under 'default', so a user layer that sits below the platform layers in the writer sits above
    them after a reload."""
    calls = [c for c in source.calls_in(pv) if last_attr(c) == "set_platform_stage_variable"]
    for c in calls:
        loops = [a for a in source.ancestors(c) if isinstance(a, ast.For)]
        plat_vars = {x.id for lp in loops if "platforms" in source.src(lp.iter) for x in ast.walk(lp.target) if isinstance(x, ast.Name)}
        ok_p = bool(plat_vars) and any(k.arg == "platform" and isinstance(k.value, ast.Name) and k.value.id in plat_vars for k in c.keywords)
        ok_s = any(isinstance(lp.iter, ast.Call) and call_name(lp.iter) == "range" for lp in loops)
        ctx.ob(rule, c, ok_p and ok_s, "for every platform and every stage" if ok_p and ok_s else
               "user variables are not injected for every platform and stage: a platform that defines the same name shadows the user's value "
               "in the experiment that stores the instance, and no longer does after the reload of the flattened description",
               construct="for plat in platforms: for stage in range(n)")


def run(ctx) -> None:
    ctx.explanation = (
        "Order of the variable layers (sequence of variables.update calls traced to their accessors) and of the option "
        "layers (the blueprint sequence folded with override_object), the 'new value wins' branches of override_object, "
        "the injection point of user variables, the handlers that may swallow an unknown variable (only under "
        "ignore_errors / primitive 'replica'), and agreement of the typed-option tables (schema admits bool/int/float "
        "=> a string-safe converter exists). Covers every combination of layers because it constrains the resolver's "
        "structure; value equality with an independent resolver needs execution and is not claimed.")
    ctx.rule("C04.R1-variable-layer-order", "variables are layered default.global, default.stage, platform.global, platform.stage, component, override")
    ctx.rule("C04.R2-option-layer-order", "options are layered builtin defaults, default global/stage blueprint, platform global/stage blueprint, component, component override")
    ctx.rule("C04.R3-new-wins", "override_object lets the higher layer win when it is not None")
    ctx.rule("C04.R4-user-variables", "user variables are injected as platform-stage variables of every platform and stage")
    ctx.rule("C04.R5-undefined-variable-is-error", "an unknown variable is swallowed only under ignore_errors or for 'replica' in primitive mode")
    ctx.rule("C04.R10-layer-then-substitute", "flattening a platform (FlowIRConcrete.instance) must not substitute variable references inside "
             "the global / stage layers: the documented order is 'layer everything, then substitute', so a reference in a low layer must "
             "still be able to see a definition that a higher layer (stage, user file, component, override) supplies")
    ctx.rule("C04.R11-requested-platform-reaches-every-layer", "inside a method of FlowIRConcrete that takes a 'platform' argument, every call of a "
             "method of the same class that also takes one passes it (any value): a callee that is left to fall back on the ACTIVE platform "
             "reads one layer - e.g. the selected platform's stage settings - from another platform than the one that was asked for")
    ctx.rule("C04.R12-scope-per-component", "in FlowIRConcrete.instance the dictionary that serves as substitution scope for a component (context= of "
             "fill_in / interpolate) and receives that component's variables is created inside the loop over the components: a scope built "
             "once per stage and updated per component carries one component's variables into the components visited after it")
    ctx.rule("C04.R13-strictness-passes-through-recursion", "a self-recursive call of a resolver (fill_in, interpolate, replace_strings ..) binds each mode "
             "flag of the signature (ignore_errors, is_primitive, use_symbol_table, in_place, raw) - matched by keyword or position - to the "
             "caller's parameter of the same name; fill_in binds both of its flags in every recursive call")
    ctx.rule("C04.R15-a-looked-up-value-is-returned", "no expression statement of conf.py / flowir.py / graph.py is a bare call of a get_* method: a query "
             "that looks a value up hands it back")
    ctx.rule("C04.R14-one-dictionary-per-variable-scope", "the loader (inject_default_values) rebinds the global variables of every platform and every "
             "stage's variables of every platform to a fresh dictionary, so that the setters - which write through these dictionaries - change "
             "one scope only even when the document made several scopes share one object")
    ctx.rule("C04.R9-flattened-description-keeps-the-order", "the configuration is loaded through FlowIRConcrete.instance()/replicate(), a second "
             "implementation of the variable layering: for every way a name can be defined in the default/platform x global/stage "
             "scopes it lets the same scope win as the live resolver get_component_variables (LAYER engine, shared with C07.R7)")
    ctx.rule("C04.R8-fixpoint-rescans", "interpolate rescans the whole string after every substitution: the scan position is advanced "
                                        "only past a reference that is left unresolved on purpose (ignore_errors, primitive mode, "
                                        "symbol-table routes), and only by one character")
    ctx.rule("C04.R6-typed-options", "every option the schema admits as bool/int/float has a string-safe converter")
    ctx.rule("C04.R7-resolver-cache-transparent", "the resolver's cache cannot return a value computed from an older description "
                                                  "(write => invalidate, alias hand-out, key coverage; the C08 analysis re-used)")

    m = ctx.repo.module(FLOWIR)
    check_platform_threaded(ctx, m)
    check_flags_through_recursion(ctx, m)
    check_scopes_unshared(ctx, m)
    check_lookups_are_returned(ctx, [ctx.repo.module(CONF), m, ctx.repo.module("python/experiment/model/graph.py")])
    n12 = check_scope_per_item(ctx, m, "C04.R12-scope-per-component",
                               "a component-level variable that shadows a global or stage variable leaks into the sibling components visited after it - their "
                               "references resolve to the sibling's value instead of the layered one")
    ctx.floor("C04.R12-scope-per-component", n12, 1, "per-item updates of a substitution scope in FlowIRConcrete.instance")

    # ---------------- R7: the layered value is what a query returns only if the cache is transparent -----------------
    from checks import c08
    from vlib.report import Ctx as _Ctx
    sub_ctx = _Ctx("C08", ctx.tier, ctx.repo)
    c08.run(sub_ctx)
    n7 = 0
    for o in sub_ctx.obligations:
        if o["rule"] in ("C08.R1-write-invalidate", "C08.R2-alias-handout", "C08.R2b-callsite", "C08.R4-key", "C08.R4b-pattern", "C08.R3-private-values"):
            o2 = dict(o)
            o2["rule"] = "C04.R7-resolver-cache-transparent"
            o2["what"] = "[%s] %s" % (o["rule"], o["what"])
            ctx.obligations.append(o2)
            n7 += 1
    ctx.functions_analysed |= sub_ctx.functions_analysed
    ctx.floor("C04.R7-resolver-cache-transparent", n7, 30, "cache-soundness obligations re-used from the C08 analysis")

    # ---------------- R1 -------------------------------------------------------------------------------
    gcv = m.func("FlowIRConcrete.get_component_variables")
    ctx.analysed(gcv)
    cfg = CFG(gcv)
    vret = [r.value.id for r in source.walk_own(gcv) if isinstance(r, ast.Return) and isinstance(r.value, ast.Name)]
    VARS = vret[0] if vret else "variables"
    ups = [(n, [c for c in own_calls(n.ast) if last_attr(c) == "update" and dotted(c.func.value) == VARS][0])
           for n in cfg.nodes if n.kind == "stmt" and n.ast is not None
           and any(last_attr(c) == "update" and dotted(c.func.value) == VARS for c in own_calls(n.ast))]
    ups.sort(key=lambda t: (t[1].lineno, t[1].col_offset))

    def classify_var_layer(arg: ast.AST) -> str:
        s = source.src(match.resolve_local(gcv, arg))
        for acc in VAR_LAYERS[:4]:
            if acc + "(" in s:
                return acc
        if "override" in s and "variables" in s:
            return "component.override.variables"
        if "component" in s and "variables" in s:
            return "component.variables"
        return "?" + short(arg, 50)
    got = [classify_var_layer(c.args[0]) for _, c in ups if c.args]
    ok = got == VAR_LAYERS
    ctx.ob("C04.R1-variable-layer-order", gcv, ok,
           "variable layers are applied lowest to highest priority: %s" % got if ok else
           "variable layers are applied in the order %s instead of %s: a lower-priority scope overrides a higher one"
           % (got, VAR_LAYERS), construct="variables.update sequence = %s" % got)
    # each later update is reached only after the earlier ones could run: statement order == control-flow order
    for (a, _), (b, _) in zip(ups, ups[1:]):
        ok = a.id not in cfg.reach([b], include_starts=False)
        ctx.ob("C04.R1-variable-layer-order", b.ast, ok, "layer order is the control-flow order" if ok else
               "a lower layer can be applied after a higher one (loop/back edge)", trivial=True)
    plat_tests = match.test_nodes(cfg, lambda t: "T" if (match.compare_parts(t) and isinstance(match.compare_parts(t)[0], ast.Name)
                                                         and match.compare_parts(t)[0].id == "platform"
                                                         and isinstance(match.compare_parts(t)[1], ast.NotEq)
                                                         and (dotted(match.compare_parts(t)[2]) or "").endswith("LabelDefault")) else None)
    for (n, c) in ups:
        layer = classify_var_layer(c.args[0])
        if layer in ("get_platform_global_variables", "get_platform_stage_variables"):
            ok = bool(plat_tests) and match.only_via_edges(cfg, n, plat_tests)
            ctx.ob("C04.R1-variable-layer-order", c, ok, "platform layer applied only for a non-default platform" if ok else
                   "platform layer is applied also for the default platform", trivial=ok)
    # the component's own layers (its variables, its override for the selected platform) do not depend on WHICH platform is selected
    # (seed C04-13: the override layer skipped for the default platform)
    sel_tests = [n for n in cfg.nodes if n.kind == "test" and n.ast is not None
                 and any(isinstance(x, ast.Name) and x.id == "platform" for x in ast.walk(n.ast))]
    for (n, c) in ups:
        layer = classify_var_layer(c.args[0])
        if layer in ("component.variables", "component.override.variables"):
            # a side that only raises is a refusal of the platform, not a choice between platforms
            def goes_on(t, lab):
                starts = [m_ for (m_, l_) in t.succ if l_ == lab]
                r = cfg.reach(starts, include_starts=True) if starts else set()
                return any(x.id in r for x in cfg.nodes if x.kind == "stmt" and isinstance(x.ast, ast.Return))
            gate = [(t, lab) for t in sel_tests for lab in ("T", "F")
                    if match.only_via_edges(cfg, n, [(t, lab)]) and goes_on(t, match.other(lab))]
            ok = not gate
            ctx.ob("C04.R1-variable-layer-order", c, ok, "%s is applied whichever platform is selected" % layer if ok else
                   "%s is applied only when `%s` is %s: for the other platforms the highest layer is missing and a lower scope wins"
                   % (layer, short(gate[0][0].ast, 60), {"T": "true", "F": "false"}[gate[0][1]]),
                   construct="%s gated by the selected platform" % layer, trivial=ok)
    # the platform argument of the accessors is the selected platform
    for (n, c) in ups:
        layer = classify_var_layer(c.args[0])
        if layer.startswith("get_platform_"):
            inner = [x for x in ast.walk(c.args[0]) if isinstance(x, ast.Call) and last_attr(x) == layer][0]
            ok = any(isinstance(a, ast.Name) and a.id == "platform" for a in inner.args) or \
                any(k.arg == "platform" and isinstance(k.value, ast.Name) and k.value.id == "platform" for k in inner.keywords)
            ctx.ob("C04.R1-variable-layer-order", inner, ok, "%s reads the selected platform" % layer if ok else
                   "%s does not read the selected platform" % layer)

    # ---------------- R2 -------------------------------------------------------------------------------
    gcc = m.func("FlowIRConcrete.get_component_configuration")
    ctx.analysed(gcc)
    name_src: Dict[str, str] = {}
    for n in source.walk_own(gcc):
        if isinstance(n, ast.Assign) and len(n.targets) == 1 and isinstance(n.targets[0], ast.Name) and isinstance(n.value, ast.Call):
            la = last_attr(n.value)
            # the default platform's layer may be read through the platform-parametrised accessor with the default label
            argsrc = [source.src(a) for a in n.value.args] + [source.src(k.value) for k in n.value.keywords]
            if any(a.endswith("LabelDefault") for a in argsrc):
                la = {"get_platform_stage_blueprint": "get_default_stage_blueprint", "get_platform_blueprint": "get_default_global_blueprint"}.get(la, la)
            if la in OPT_LAYERS:
                name_src[n.targets[0].id] = la
    fold_loops = [a for c in source.calls_in(gcc) if last_attr(c) == "override_object" and len(c.args) == 2
                  for a in source.ancestors(c) if isinstance(a, ast.For) and isinstance(a.iter, ast.Name)]
    SEQ = fold_loops[0].iter.id if fold_loops else "sequence"
    seq: List[str] = []
    events = []
    for n in source.walk_own(gcc):
        if isinstance(n, ast.Assign) and any(isinstance(t, ast.Name) and t.id == SEQ for t in n.targets) and isinstance(n.value, ast.List):
            events.append((n.lineno, [e for e in n.value.elts]))
        if isinstance(n, ast.AugAssign) and isinstance(n.target, ast.Name) and n.target.id == SEQ and isinstance(n.value, ast.List):
            events.append((n.lineno, [e for e in n.value.elts]))
        if isinstance(n, ast.Call) and last_attr(n) == "append" and dotted(n.func.value) == SEQ and n.args:
            events.append((n.lineno, [n.args[0]]))
    events.sort(key=lambda t: t[0])
    for _, elts in events:
        for e in elts:
            if isinstance(e, ast.Name) and e.id in name_src:
                seq.append(name_src[e.id])
            elif "override" in source.src(e):
                seq.append("component.override")
            else:
                seq.append("?" + short(e, 40))
    check_layers_unconditional(ctx, gcc, SEQ, option_layer_names(gcc)[1], "C04.R2-option-layer-order")
    ok = seq == OPT_LAYERS
    ctx.ob("C04.R2-option-layer-order", gcc, ok,
           "option layers are folded lowest to highest priority: %s" % seq if ok else
           "option layers are folded in the order %s instead of %s" % (seq, OPT_LAYERS), construct="sequence = %s" % seq)
    folds = [c for c in source.calls_in(gcc) if last_attr(c) == "override_object" and len(c.args) == 2]
    okf = False
    for c in folds:
        lp = None
        for a in source.ancestors(c):
            if isinstance(a, ast.For) and isinstance(a.iter, ast.Name) and a.iter.id == SEQ:
                lp = a
        if lp is not None and isinstance(c.args[0], ast.Name) and isinstance(c.args[1], ast.Name) and isinstance(lp.target, ast.Name) \
                and c.args[1].id == lp.target.id:
            p = source.parent(c)
            okf = isinstance(p, ast.Assign) and isinstance(p.targets[0], ast.Name) and p.targets[0].id == c.args[0].id
    ctx.ob("C04.R2-option-layer-order", folds[0] if folds else gcc, okf,
           "the sequence is folded left with ret = override_object(ret, layer)" if okf else
           "the layers are no longer folded as ret = override_object(ret, layer) (arguments swapped => lower layer wins)",
           construct="for layer in sequence: ret = override_object(ret, layer)")
    # the variables used for interpolation are the layered ones
    st = [n for n in source.walk_own(gcc) if isinstance(n, ast.Assign) and any(
        isinstance(t, ast.Subscript) and isinstance(t.slice, ast.Constant) and t.slice.value == "variables" and isinstance(t.value, ast.Name)
        for t in n.targets)]
    ok = bool(st) and isinstance(st[0].value, ast.Name) and any(
        isinstance(v, ast.Call) and last_attr(v) == "get_component_variables" for v in match.assigned_value(gcc, st[0].value.id))
    ctx.ob("C04.R2-option-layer-order", st[0] if st else gcc, ok, "the resolved configuration carries the layered variables" if ok else
           "ret['variables'] is no longer the result of get_component_variables")

    # ---------------- R3 -------------------------------------------------------------------------------
    oo = m.func("FlowIR.override_object")
    ctx.analysed(oo)
    c3 = CFG(oo)
    # role: the continuation unpacked from the work list  old, new, <merge> = remaining.pop(0)
    unp = [n.targets[0].elts[2].id for n in source.walk_own(oo) if isinstance(n, ast.Assign) and isinstance(n.targets[0], ast.Tuple)
           and len(n.targets[0].elts) == 3 and isinstance(n.targets[0].elts[2], ast.Name) and isinstance(n.value, ast.Call) and last_attr(n.value) == "pop"]
    MERGE = unp[0] if unp else "merge_ret"
    merges = match.nodes_calling(c3, lambda c: call_name(c) == MERGE and c.args)
    nn_tests = match.test_nodes(c3, lambda t: "T" if (match.compare_parts(t) and isinstance(match.compare_parts(t)[0], ast.Name)
                                                      and match.compare_parts(t)[0].id == "new" and isinstance(match.compare_parts(t)[1], ast.IsNot)
                                                      and isinstance(match.compare_parts(t)[2], ast.Constant) and match.compare_parts(t)[2].value is None) else None)
    dict_tests = match.test_nodes(c3, lambda t: "T" if (isinstance(t, ast.Call) and call_name(t) == "isinstance" and len(t.args) == 2
                                                        and isinstance(t.args[0], ast.Name) and t.args[0].id == "old" and source.src(t.args[1]) == "dict") else None)
    ctx.require(bool(merges) and bool(dict_tests), "anchor missing: merge_ret / isinstance(old, dict) in override_object")
    if not nn_tests:
        ctx.ob("C04.R3-new-wins", oo, False, "override_object no longer decides scalar values by 'new is not None': the higher layer does not "
               "reliably win", construct="test 'new is not None' (missing)")
    for mn in merges:
        call = [c for c in own_calls(mn.ast) if call_name(c) == MERGE][0]
        arg = source.src(call.args[0])
        if arg == "new":
            ok = match.only_via_edges(c3, mn, nn_tests) and match.only_via_edges(c3, mn, [(n, "F") for n, _ in dict_tests])
            ctx.ob("C04.R3-new-wins", call, ok, "for non-dictionaries the higher layer wins when it is not None" if ok else
                   "merge_ret(new) is not exactly the 'new is not None and old is not a dict' case")
        elif arg == "old":
            ok = match.only_via_edges(c3, mn, [(n, "F") for n, _ in nn_tests])
            ctx.ob("C04.R3-new-wins", call, ok, "the lower layer survives only when the higher one is None" if ok else
                   "merge_ret(old) is reachable although the higher layer defines a value: the lower layer wins")
        else:
            ok = match.only_via_edges(c3, mn, dict_tests)
            ctx.ob("C04.R3-new-wins", call, ok, "dictionaries start from the lower layer and are refined key by key" if ok else
                   "unexpected merge_ret(%s)" % arg)
    KCOMMON = match.role(oo, lambda v: "intersection" in source.src(v) or (isinstance(v, ast.BinOp) and isinstance(v.op, ast.BitAnd)), "keys_common")
    KNOVEL = match.role(oo, lambda v: (isinstance(v, ast.Call) and last_attr(v) == "difference") or (isinstance(v, ast.BinOp) and isinstance(v.op, ast.Sub)
                                                                                                      and "keys" in source.src(v)), "keys_novel")
    ok, where, why = novel_keys_copied(oo)
    ctx.ob("C04.R3-new-wins", where, ok, "keys only the higher layer defines are copied, whatever their value" if ok else
           "novel keys of the higher layer are not all copied (%s)" % why, construct="for key in keys_novel: ret[key] = new[key]")
    common = [n for n in source.walk_own(oo) if isinstance(n, ast.For) and isinstance(n.iter, ast.Name) and n.iter.id == KCOMMON]
    ok = False
    if common:
        tuples = [x for x in ast.walk(common[0]) if isinstance(x, ast.Tuple) and len(x.elts) == 3]
        kv = common[0].target.id if isinstance(common[0].target, ast.Name) else "key"
        ok = any(source.src(t.elts[0]) == "old[%s]" % kv and source.src(t.elts[1]) == "new[%s]" % kv for t in tuples)
    ctx.ob("C04.R3-new-wins", common[0] if common else oo, ok, "common keys are merged recursively as (old[key], new[key])" if ok else
           "common keys are not merged recursively in (old, new) order", construct="for key in keys_common: (old[key], new[key])")
    kd = {"keys_common": match.assigned_value(oo, KCOMMON), "keys_novel": match.assigned_value(oo, KNOVEL)}
    ok = any("intersection" in source.src(v) for v in kd["keys_common"]) and any(
        isinstance(v, ast.Call) and last_attr(v) == "difference" and isinstance(v.func.value, ast.Name)
        and any("new" in source.names_in(w) for w in match.assigned_value(oo, v.func.value.id)) for v in kd["keys_novel"])
    ctx.ob("C04.R3-new-wins", oo, ok, "keys_common / keys_novel partition the higher layer's keys" if ok else
           "keys_common / keys_novel no longer partition the higher layer's keys", construct="keys_common = old&new, keys_novel = new-old")

    # the user's variable FILES are layered with that same deep merge: `stages:` nests one level deeper than `global:`, so a per-section
    # dict.update lets a later file's entry for a stage replace the earlier file's whole dictionary for that stage (seed C04-14)
    lmv = ctx.repo.module(CONF).functions.get("FlowIRExperimentConfiguration.layer_many_variable_files")
    ctx.require(lmv is not None, "anchor missing: FlowIRExperimentConfiguration.layer_many_variable_files")
    ctx.analysed(lmv)
    merges_ = [x for x in ast.walk(lmv) if isinstance(x, ast.Attribute) and x.attr == "override_object"]       # called directly or through an alias
    ret_names_ = {x.id for r in ast.walk(lmv) if isinstance(r, ast.Return) and r.value is not None for x in ast.walk(r.value) if isinstance(x, ast.Name)}
    shallow_ = [c for c in source.calls_in(lmv, include_nested=True) if last_attr(c) == "update" and any(
        isinstance(a, ast.For) for a in source.ancestors(c)) and isinstance(c.func, ast.Attribute)
        and any(isinstance(x, ast.Name) and x.id in ret_names_ for x in ast.walk(c.func.value))]
    ok = bool(merges_) and not shallow_
    ctx.ob("C04.R3-new-wins", (shallow_ or merges_ or [lmv])[0], ok,
           "layer_many_variable_files layers the user's files with override_object (the deep merge judged above)" if ok else
           "layer_many_variable_files merges the user's variable files with %s instead of override_object: `stages: {0: {..}}` is one level deeper "
           "than `global:`, so a later file's entry for a stage replaces the earlier file's whole dictionary for that stage - a user variable "
           "the later file does not repeat silently disappears and the platform's or the default value wins"
           % (short(shallow_[0], 60) if shallow_ else "something else"),
           construct="layer_many_variable_files -> override_object")

    # R8 (obligation, seed C04-15): the value that replaces a reference is the variable's RESOLVED value - in the nested resolver of
    # interpolate a string value always goes through the recursive interpolate() call (which also expands a constant array access such as
    # '[alpha beta gamma][1]' inside the value); a shortcut that splices the raw text in ("no '%(' in it") leaves the array syntax to be
    # expanded over the whole surrounding string
    itp = m.func("FlowIR.interpolate")
    resolvers = [g for g in ast.walk(itp) if isinstance(g, ast.FunctionDef) and g is not itp and any(
        isinstance(c, ast.Call) and last_attr(c) == "interpolate" for c in ast.walk(g))]
    ctx.require(bool(resolvers), "anchor missing: the nested resolver of FlowIR.interpolate that recurses into interpolate()")
    for g in resolvers:
        rets = {r.value.id for r in ast.walk(g) if isinstance(r, ast.Return) and isinstance(r.value, ast.Name)}
        for iff in [x for x in ast.walk(g) if isinstance(x, ast.If)]:
            t = iff.test
            if not (isinstance(t, ast.Call) and call_name(t) == "isinstance" and len(t.args) == 2 and "string" in source.src(t.args[1]).lower() + "str"
                    and ("string_types" in source.src(t.args[1]) or source.src(t.args[1]) == "str")):
                continue
            raw_name = t.args[0].id if isinstance(t.args[0], ast.Name) else None
            stores = [a for st in iff.body for a in ast.walk(st) if isinstance(a, ast.Assign) and any(isinstance(tg, ast.Name) and tg.id in rets for tg in a.targets)]
            raw = [a for a in stores if not (isinstance(a.value, ast.Call) and last_attr(a.value) == "interpolate")]
            ctx.ob("C04.R8-fixpoint-rescans", (raw or stores or [iff])[0], bool(stores) and not raw,
                   "a string value always goes through the recursive interpolate() before it replaces the reference" if (stores and not raw) else
                   "the nested resolver of interpolate can hand back the RAW text of a variable (%s) without resolving it: a value that holds a constant "
                   "array access ('[alpha beta gamma][1]') is spliced in unexpanded and the array expansion then runs over the whole surrounding "
                   "string - '--opt=%%(c)s pre-%%(c)s' resolves to 'beta beta'" % (short(raw[0], 50) if raw else "no assignment on the string branch"),
                   construct="interpolate: string values are resolved recursively")

    # ---------------- R4 -------------------------------------------------------------------------------
    conf = ctx.repo.module(CONF)
    pv = conf.func("FlowIRExperimentConfiguration._patch_in_variable_files")
    ctx.analysed(pv)
    calls = [c for c in source.calls_in(pv) if last_attr(c) == "set_platform_stage_variable"]
    other_setters = [c for c in source.calls_in(pv) if (last_attr(c) or "").startswith("set_") and last_attr(c) != "set_platform_stage_variable"]
    ok = bool(calls) and not other_setters
    ctx.ob("C04.R4-user-variables", calls[0] if calls else pv, ok,
           "user variables are injected through set_platform_stage_variable (above platform settings, below the component's own)" if ok else
           "user variables are injected through %s: they land in a different layer than documented"
           % sorted({last_attr(c) for c in other_setters} or {"nothing"}))
    check_user_layer_every_platform(ctx, pv, "C04.R4-user-variables")
    # the variables injected for stage N are (user global) + (user stage N) and nothing else: the dictionary whose items are
    # injected is created inside the loop over the stages (a fresh copy per stage), not carried over from the previous stage
    from vlib import flow
    cpv = CFG(pv)
    for c in calls:
        stage_loops = [a for a in source.ancestors(c) if isinstance(a, ast.For) and isinstance(a.iter, ast.Call) and call_name(a.iter) == "range"]
        src_names = {x.value.id for a in c.args for x in ast.walk(a) if isinstance(x, ast.Subscript) and isinstance(x.value, ast.Name)}
        item_loops = [a for a in source.ancestors(c) if isinstance(a, ast.For) and isinstance(a.iter, ast.Name)]
        src_names |= {a.iter.id for a in item_loops}
        for nm in sorted(src_names):
            st = source.stmt_of(c)
            nodes = [n for n in cpv.nodes if n.ast is st]
            rd = flow.reaching_defs(cpv, nm, ignore_labels=("exc",)).get(nodes[0].id, frozenset()) if nodes else frozenset()
            defs = [cpv.nodes[d] for d in rd if d >= 0]
            if not defs or not stage_loops:
                continue
            inner_stage = stage_loops[0]
            ok = all(any(d.ast is x for x in ast.walk(inner_stage)) for d in defs) and all(
                isinstance(flow.def_value(cpv, d.id, nm), ast.Call) and (call_name(flow.def_value(cpv, d.id, nm)) or "").split(".")[-1] in ("deepcopy", "deep_copy", "dict", "copy")
                or isinstance(flow.def_value(cpv, d.id, nm), (ast.Dict, ast.DictComp)) for d in defs)
            ctx.ob("C04.R4-user-variables", defs[0].ast, ok,
                   "the variables injected for a stage are rebuilt for every stage from the user's global variables" if ok else
                   "the dictionary of variables injected for a stage (%s) is created outside the loop over the stages: it keeps the user's "
                   "variables of the earlier stages, so stage N also receives (and prefers) what the user supplied for stages < N" % nm,
                   construct="%s is created per stage" % nm)
    init = conf.func("FlowIRExperimentConfiguration._initialize")
    c4 = CFG(init)
    patch = match.nodes_calling(c4, lambda c: last_attr(c) == "_patch_in_variable_files")
    copyn = [n for n in c4.nodes if n.kind == "stmt" and isinstance(n.ast, ast.Assign) and any(source.src(t) == "self._unreplicated" for t in n.ast.targets)]
    ok = bool(patch) and bool(copyn) and all(c4.every_path_to_passes(x, gates=patch) for x in copyn)
    ctx.ob("C04.R4-user-variables", init, ok, "user variables are patched in before the description is copied/replicated" if ok else
           "the unreplicated copy is taken before user variables are patched in", construct="_patch_in_variable_files before self._unreplicated = copy()")

    undefined_variable_rules(ctx, m, gcc, "C04.R5-undefined-variable-is-error", "C04.R8-fixpoint-rescans")

    # ---------------- R6 -------------------------------------------------------------------------------
    cct = m.func("FlowIR.convert_component_types")
    ctx.analysed(cct)
    ETN = match.role(cct, lambda v: isinstance(v, ast.Dict) and len(v.keys) >= 3, "expected_types")
    et = match.assigned_value(cct, ETN)
    ctx.require(len(et) == 1 and isinstance(et[0], ast.Dict), "anchor missing: expected_types literal in convert_component_types")
    conv = schema_leaves(et[0])
    gb = m.functions.get("FlowIR.type_flowir_component.generate_blueprint")
    ctx.require(gb is not None, "anchor missing: generate_blueprint in type_flowir_component")
    ret = match.assigned_value(gb, "ret")
    ctx.require(bool(ret) and isinstance(ret[0], ast.Dict), "anchor missing: schema literal in generate_blueprint")
    schema = schema_leaves(ret[0])
    ctx.extra["schema_leaves"] = len(schema)
    ctx.extra["converter_leaves"] = len(conv)
    n_typed = 0
    for path, v in sorted(schema.items()):
        if path[0] not in ("command", "workflowAttributes", "resourceRequest", "resourceManager"):
            continue
        for tname, what in (("bool", "boolean"), ("int", "integer"), ("float", "float")):
            if not admits(v, tname):
                continue
            n_typed += 1
            c = conv.get(path)
            cons = "%s : schema %s -> converter %s" % (".".join(path), short(v, 50), short(c, 30) if c is not None else "none")
            if c is None:
                ctx.ob("C04.R6-typed-options", v, False,
                       "option %s may be a %s (also through a variable reference or a quoted YAML value) but has no type "
                       "converter: a string value such as 'false' stays a string (and is then rejected or treated as true)"
                       % (".".join(path), what), construct=cons)
            elif tname == "bool" and isinstance(c, ast.Name) and c.id == "bool":
                ctx.ob("C04.R6-typed-options", c, False,
                       "option %s is converted with the builtin bool(): the string 'false' (e.g. from a variable) becomes True"
                       % ".".join(path), construct=cons)
            else:
                ctx.ob("C04.R6-typed-options", c, True, "option %s has a string-safe converter" % ".".join(path), construct=cons)
            break
    ctx.floor("C04.R6-typed-options", n_typed, 15, "typed (bool/int/float) options in the component schema")
    # a converter keeps every value that was given: it may special-case None ('is None' / 'is not None'), never the value's truthiness -
    # 'int(value) if value else None' turns an explicit 0 (maxRestarts: 0, "may not restart") of the winning layer into None, i.e. the
    # built-in default reappears over the top layer
    cct_fn = m.functions.get("FlowIR.convert_component_types")
    n_conv = 0
    if cct_fn is not None:
        for conv_fn in [x for x in ast.walk(cct_fn) if isinstance(x, ast.FunctionDef) and x is not cct_fn and len(x.args.args) == 1]:
            pname = conv_fn.args.args[0].arg
            n_conv += 1
            tests = [x.test for x in ast.walk(conv_fn) if isinstance(x, (ast.If, ast.IfExp, ast.While))]
            tests += [v for x in ast.walk(conv_fn) if isinstance(x, ast.BoolOp) for v in x.values]
            truthy = [t for t in tests if (isinstance(t, ast.Name) and t.id == pname)
                      or (isinstance(t, ast.UnaryOp) and isinstance(t.op, ast.Not) and isinstance(t.operand, ast.Name) and t.operand.id == pname)]
            ctx.ob("C04.R6-typed-options", truthy[0] if truthy else conv_fn, not truthy,
                   "the converter %s keeps every value that is not None" % conv_fn.name if not truthy else
                   "the converter %s decides on the TRUTHINESS of the value (%s): an explicit 0 given by the winning layer - 'maxRestarts: 0', the component "
                   "may not be restarted - is converted to None and the built-in default takes its place" % (conv_fn.name, short(truthy[0], 30)),
                   construct="convert_component_types.%s: no truthiness test of the value" % conv_fn.name)
    ctx.floor("C04.R6-typed-options", n_conv, 2, "one-argument converters nested in convert_component_types")
    for path, c in sorted(conv.items()):
        ok = path in schema
        ctx.ob("C04.R6-typed-options", c, ok, "converter path %s is a schema path" % ".".join(path) if ok else
               "converter for %s has no schema entry (dead or misspelt path)" % ".".join(path), trivial=True)

    # ---------------- R9 -------------------------------------------------------------------------------
    from checks.c07 import check_scope_precedence, instance_literal
    inst9, lit9, consts9 = instance_literal(ctx, m)
    check_scope_precedence(ctx, m, inst9, lit9, consts9, rule="C04.R9-flattened-description-keeps-the-order",
                           consequence="a configuration obtained through instance()/replicate() (every non-primitive load) resolves the "
                                       "variable from a lower layer than the documented order: the platform's global value beats its stage "
                                       "value and the user-supplied one")

    # ---------------- R10 ------------------------------------------------------------------------------
    from checks.c07 import field_name
    var_lit = next((v for k, v in zip(lit9.keys, lit9.values) if field_name(consts9, k) == "variables"), None)
    ctx.require(isinstance(var_lit, ast.Dict) and len(var_lit.values) == 1 and isinstance(var_lit.values[0], ast.Dict),
                "anchor missing: the 'variables' entry of the dictionary returned by instance()")
    inner = var_lit.values[0]
    slots = {field_name(consts9, k): v for k, v in zip(inner.keys, inner.values)}
    ctx.require(isinstance(slots.get("global"), ast.Name) and isinstance(slots.get("stages"), ast.Name),
                "anchor missing: variables.default.global / .stages of instance() are local dictionaries")
    layer_of = {slots["global"].id: "global", slots["stages"].id: "stage"}
    # locals stored as elements of a layer dictionary carry that layer too (stage_variables[i] = this_stage_vars)
    for n in source.walk_own(inst9):
        if isinstance(n, ast.Assign) and isinstance(n.value, ast.Name):
            for t in n.targets:
                if isinstance(t, ast.Subscript) and isinstance(t.value, ast.Name) and t.value.id in layer_of:
                    layer_of.setdefault(n.value.id, layer_of[t.value.id])
    SUBST = ("interpolate", "fill_in")
    sites = []
    for n in source.walk_own(inst9):
        if not isinstance(n, ast.Assign) or not (isinstance(n.value, ast.Call) and last_attr(n.value) in SUBST):
            continue
        for t in n.targets:
            if isinstance(t, ast.Subscript) and isinstance(t.value, ast.Name) and t.value.id in layer_of:
                sites.append((n, layer_of[t.value.id], "an entry of the %s layer is replaced by its substituted value" % layer_of[t.value.id]))
            elif isinstance(t, ast.Name) and t.id in layer_of:
                sites.append((n, layer_of[t.id], "the %s layer is rebound to its substituted copy" % layer_of[t.id]))
    for (n, lay, how) in sites:
        ctx.ob("C04.R10-layer-then-substitute", n, False,
               "FlowIRConcrete.instance substitutes references inside the %s variables against the lower layers only and stores the result in "
               "the flattened description (%s): with variables.default.global {a: '%%(b)s', b: 'G'} and the component variable b: 'C', "
               "arguments '-a %%(a)s' resolve to '-a C' on the description itself but to '-a G' after flattening - every non-primitive load"
               % (lay, how), construct="instance(): %s" % short(n, 70))
    if not sites:
        ctx.ob("C04.R10-layer-then-substitute", inst9, True, "the flattened layers keep their references for the final substitution",
               construct="instance(): no substitution stored into the global / stage layers")
