"""C12 - task restarts stay within the configured policy.  See DESIGN.md section C12."""
from __future__ import annotations

import ast
from typing import Dict, List, Optional, Set, Tuple

from vlib import flow, match, source
from vlib.cfg import CFG, Node, own_calls
from vlib.source import AnalysisError, call_name, dotted, last_attr, short

ENGINE = "python/experiment/runtime/engine.py"
CONTROL = "python/experiment/runtime/control.py"
WORKFLOW = "python/experiment/runtime/workflow.py"
FLOWIR = "python/experiment/model/frontends/flowir.py"

ALLOWING = {"RestartContextRestartPossible", "RestartContextHookNotAvailable"}


# actual names of two locals of Engine.restart, found by their definitions (roles), not by their spelling
MAXR = "max_restarts"
RCTX = "restartContext"
HOOKON = "reasons_for_restart"
RCODE = "restartCode"


def discover_roles(fn: ast.AST) -> None:
    """MAXR: the local read from workflowAttributes['maxRestarts'] / .get('maxRestarts'); RCTX: the local that is assigned
    members of codes.restartContexts."""
    global MAXR, RCTX, HOOKON, RCODE
    for n in source.walk_own(fn):
        if isinstance(n, ast.Assign) and len(n.targets) == 1 and isinstance(n.targets[0], ast.Name):
            v = n.value
            if isinstance(v, ast.Call) and last_attr(v) == "get" and v.args and isinstance(v.args[0], ast.Constant) \
                    and v.args[0].value == "restartHookOn":
                HOOKON = n.targets[0].id
    rc: Dict[str, int] = {}
    for n in source.walk_own(fn):
        if isinstance(n, ast.Assign) and len(n.targets) == 1 and isinstance(n.targets[0], ast.Name) \
                and codes_key(n.value, "restartCodes") is not None:
            rc[n.targets[0].id] = rc.get(n.targets[0].id, 0) + 1
    if rc:
        RCODE = max(rc, key=lambda k: rc[k])
    for n in source.walk_own(fn):
        if isinstance(n, ast.Assign) and len(n.targets) == 1 and isinstance(n.targets[0], ast.Name):
            v = n.value
            if any(isinstance(c, ast.Constant) and c.value == "maxRestarts" for c in ast.walk(v)) and "workflowAttributes" in source.src(v):
                MAXR = n.targets[0].id
    counts: Dict[str, int] = {}
    for n in source.walk_own(fn):
        if isinstance(n, ast.Assign) and len(n.targets) == 1 and isinstance(n.targets[0], ast.Name) \
                and codes_key(n.value, "restartContexts") is not None:
            counts[n.targets[0].id] = counts.get(n.targets[0].id, 0) + 1
    if counts:
        RCTX = max(counts, key=lambda k: counts[k])


def codes_key(e: ast.AST, table: str) -> Optional[str]:
    """experiment.model.codes.<table>['Key'] -> 'Key'"""
    if isinstance(e, ast.Subscript) and isinstance(e.slice, ast.Constant) and isinstance(e.slice.value, str) \
            and (dotted(e.value) or "").endswith(table):
        return e.slice.value
    return None


def reason_test(key: str, var: str = "reason"):
    """test-node predicate: `<var> == exitReasons[key]` -> 'T' side means equal; `!=` -> 'F' side means equal."""
    def pred(t: ast.AST) -> Optional[str]:
        cp = match.compare_parts(t)
        if not cp:
            return None
        l, op, r = cp
        for a, b in ((l, r), (r, l)):
            if isinstance(a, ast.Name) and a.id == var and codes_key(b, "exitReasons") == key:
                if isinstance(op, ast.Eq):
                    return "T"
                if isinstance(op, ast.NotEq):
                    return "F"
        return None
    return pred


def linear(e: ast.AST, atoms: Dict[str, str]) -> Optional[Dict[str, int]]:
    """Linear form over named atoms: {'restarts': c1, 'max': c2, '1': const}; atoms maps source text -> atom."""
    s = source.src(e)
    if s in atoms:
        return {atoms[s]: 1}
    if isinstance(e, ast.Constant) and isinstance(e.value, int) and not isinstance(e.value, bool):
        return {"1": e.value}
    if isinstance(e, ast.BinOp) and isinstance(e.op, (ast.Add, ast.Sub)):
        a, b = linear(e.left, atoms), linear(e.right, atoms)
        if a is None or b is None:
            return None
        out = dict(a)
        sign = 1 if isinstance(e.op, ast.Add) else -1
        for k, v in b.items():
            out[k] = out.get(k, 0) + sign * v
        return out
    if isinstance(e, ast.UnaryOp) and isinstance(e.op, ast.USub):
        a = linear(e.operand, atoms)
        return None if a is None else {k: -v for k, v in a.items()}
    return None


def exceeded_implies_bound(test: ast.AST, restarts_src: str, max_src: str) -> Optional[bool]:
    """`test` is the 'budget exceeded' predicate.  Returns True iff (not test) implies restarts + 1 <= max for all
    integers, None if the shape is not a linear comparison of the two quantities."""
    cp = match.compare_parts(test)
    if not cp:
        return None
    l, op, r = cp
    atoms = {restarts_src: "r", max_src: "m"}
    a, b = linear(l, atoms), linear(r, atoms)
    if a is None or b is None:
        return None
    d: Dict[str, int] = dict(a)
    for k, v in b.items():
        d[k] = d.get(k, 0) - v
    cr, cm, c = d.get("r", 0), d.get("m", 0), d.get("1", 0)
    # normalise to  r - m + c  OP 0
    if (cr, cm) == (-1, 1):
        cr, cm, c = 1, -1, -c
        flip = {ast.Gt: ast.Lt, ast.GtE: ast.LtE, ast.Lt: ast.Gt, ast.LtE: ast.GtE}
        for k, v in flip.items():
            if isinstance(op, k):
                op = v()
                break
    if (cr, cm) != (1, -1):
        return None
    # exceeded:  r - m + c > 0   => not exceeded: r + c <= m  => need c >= 1
    if isinstance(op, ast.Gt):
        return c >= 1
    # exceeded:  r - m + c >= 0  => not exceeded: r + c < m  i.e. r + c + 1 <= m => need c >= 0
    if isinstance(op, ast.GtE):
        return c >= 0
    return False


def cap_tests(fn, cfg):
    """Tests that compare the engine's number of consecutive re-submissions with the controller's cap, in any of the equivalent
    spellings: [(test node, edge label on which a re-submission is ALLOWED, is the boundary the documented strict one, text)].
    'attempts < cap' (allowed on T), 'attempts >= cap' (allowed on F), 'cap > attempts', 'cap <= attempts', through a local that holds the
    attempts or the cap, and under 'not'.  'attempts <= cap' / 'attempts > cap' are cap tests too, with the wrong boundary."""
    def is_attempts(e, d=0):
        if isinstance(e, ast.Call) and last_attr(e) == "resubmissionAttempts":
            return True
        if isinstance(e, ast.Name) and d < 3:
            vals = match.assigned_value(fn, e.id)
            return bool(vals) and all(is_attempts(v, d + 1) for v in vals)
        return False

    def is_cap(e, d=0):
        if isinstance(e, ast.Attribute) and e.attr == "_max_resubmission_attempts":
            return True
        if isinstance(e, ast.Name) and d < 3:
            vals = match.assigned_value(fn, e.id)
            return bool(vals) and all(is_cap(v, d + 1) for v in vals)
        return False
    out = []
    for n in cfg.nodes:
        if n.kind != "test" or n.ast is None:
            continue
        t, neg = n.ast, False
        while isinstance(t, ast.UnaryOp) and isinstance(t.op, ast.Not):
            t, neg = t.operand, not neg
        cp = match.compare_parts(t)
        if not cp:
            continue
        l, op, r = cp
        if is_attempts(l) and is_cap(r):
            table = {ast.Lt: ("T", True), ast.GtE: ("F", True), ast.LtE: ("T", False), ast.Gt: ("F", False), ast.NotEq: ("T", False), ast.Eq: ("F", False)}
        elif is_cap(l) and is_attempts(r):
            table = {ast.Gt: ("T", True), ast.LtE: ("F", True), ast.GtE: ("T", False), ast.Lt: ("F", False), ast.NotEq: ("T", False), ast.Eq: ("F", False)}
        else:
            continue
        hit = table.get(type(op))
        if hit is None:
            continue
        lab, exact = hit
        out.append((n, match.other(lab) if neg else lab, exact, source.src(n.ast)))
    return out


def _reaches_without(cfg, start, target, gate) -> bool:
    """is target reachable from start on a path that avoids gate"""
    return target.id in cfg.reach([start], blocked=[gate], include_starts=False)


def run(ctx) -> None:
    ctx.explanation = (
        "Path rules over the CFG of Engine.restart (budget test dominates launch with the right arithmetic, launch "
        "only under restartable-reason guards via reaching definitions of the restart context, counter discipline), "
        "guard recognition in Controller._restartComponent, schema exclusion of Killed/Cancelled, and the refusal "
        "paths of ComponentState.restart / RepeatingEngine.restart. Together with a counting argument on the loop-free "
        "restart function these bound restarts <= maxRestarts for every sequence of exit reasons and hook outcomes.")
    for rid, text in [
        ("C12.R1-budget-dominates-launch", "every path to self.run() in Engine.restart passes the budget test on its not-exceeded "
                                           "side; not-exceeded implies restarts+1 <= max; defaults are 3 / unlimited with a hook file"),
        ("C12.R2-restartable-reasons-only", "self.run() is guarded by the restart context being RestartPossible/HookNotAvailable and "
                                            "every definition of an allowing (or hook-provided) context is made under "
                                            "'reason in restartHookOn' or 'reason == SubmissionFailed'"),
        ("C12.R8-relaunch-from-clean-state", "every path of Engine.restart that reaches self.run() first resets (to None) the per-execution "
                                            "fields that the exit-reason API reads (the task handle and the recorded exit reason): a kill "
                                            "before the new task exists must be recorded as Killed, not as the previous task's reason"),
        ("C12.R3-counters", "restarts is incremented at most once per call, only after the budget test, and on every launch whose "
                            "reason is not SubmissionFailed; _resubmissionAttempts is incremented on every initiated SubmissionFailed "
                            "relaunch and reset only on Success"),
        ("C12.R4-controller-guards", "every component.restart() in the controller is inside one of the three documented guards; "
                                     "resubmission cap is the literal 5"),
        ("C12.R5-killed-cancelled-excluded", "restartHookOn cannot list Killed/Cancelled (schema) and the instability guard excludes them"),
        ("C12.R6-refusals", "ComponentState.restart refuses after shutdown; RepeatingEngine.restart launches at most once and only for ResourceExhausted"),
        ("C12.R7-refusal-final-state", "a refused restart leads to TransitionComponentToFinalState in postMortemCheck"),
        ("C12.R11-restart-for-the-reason-that-was-filtered", "the reason the controller hands to component.restart() (and to _unstableSystemRestart) in the "
                                                             "post-mortem path is the exit reason its guards tested - the parameter or the engine's "
                                                             "exitReason() - never a constant of the exit-reason table: the engine filters restartHookOn "
                                                             "on the reason it is GIVEN, so a substituted reason passes a filter the real one would not"),
        ("C12.R10-hook-outcomes-contained", "the call of the restart hook is enclosed by handlers for Exception and for SystemExit (a hook calling "
                                            "sys.exit()); each of them records a refusing restart context and none re-raises, so every hook "
                                            "outcome - raising included - comes back to the controller as a restart code"),
        ("C12.R9-final-state-listener-kept", "the subject through which a kill reaches an engine that has not run yet (it is subscribed once, in "
                                             "Engine.__init__) is replaced by restart only when the engine is no longer alive, or the replacing "
                                             "method subscribes the handler again: otherwise the final state of a refused restart "
                                             "(finish() -> kill()) is emitted into a subject nobody listens to"),
    ]:
        ctx.rule(rid, text)
    ctx.assume("the hook's side effects are not modelled; only its return value protocol")
    ctx.assume("Engine.run() does not itself call restart (checked: no call to restart inside the Engine classes' run methods)")

    eng = ctx.repo.module(ENGINE)
    ctl = ctx.repo.module(CONTROL)
    wf = ctx.repo.module(WORKFLOW)
    fir = ctx.repo.module(FLOWIR)

    check_listener_kept(ctx, eng)
    fn = eng.func("Engine.restart")
    discover_roles(fn)
    check_hook_contained(ctx, eng, fn)
    check_maximum_read_verbatim(ctx, eng)
    ctx.analysed(fn)
    cfg = CFG(fn)
    ctx.paths += cfg.paths_count()
    run_nodes = match.nodes_calling(cfg, lambda c: call_name(c) == "self.run")
    ctx.floor("C12.R1-budget-dominates-launch", len(run_nodes), 1, "self.run() launch sites in Engine.restart")

    # ---------------- R1 -----------------------------------------------------------------------------
    # the 'unlimited' test and the 'exceeded' test
    unl = match.test_nodes(cfg, lambda t: _unlimited(t))
    exc_tests: List[Tuple[Node, str]] = []
    for n in cfg.nodes:
        if n.kind == "test" and n.ast is not None:
            v = exceeded_implies_bound(n.ast, "self.restarts", MAXR)
            if v is not None:
                exc_tests.append((n, "T"))
                ctx.ob("C12.R1-budget-dominates-launch", n.ast, v,
                       "passing the budget test (%s is false) implies restarts + 1 <= max_restarts" % short(n.ast) if v else
                       "the budget test %s can be false although restarts + 1 > max_restarts: one restart too many"
                       % short(n.ast))
    ok_edges = [(n, "F") for n, _ in exc_tests] + [(n, match.other(l)) for n, l in unl]
    for rn in run_nodes:
        ok = bool(exc_tests) and match.only_via_edges(cfg, rn, ok_edges)
        ctx.ob("C12.R1-budget-dominates-launch", rn.ast, ok,
               "every path to self.run() passes the budget test on its not-exceeded (or unlimited) side" if ok else
               "self.run() is reachable without passing the restart-budget test: restarts are not bounded by maxRestarts",
               construct="self.run() <- budget test")
    # the exceeded side returns RestartMaxAttemptsExceeded (never launches)
    for (tn, lab) in exc_tests:
        succ = [m for (m, l2) in tn.succ if l2 == lab]
        r = cfg.reach(succ)
        ok = not any(rn.id in r for rn in run_nodes)
        ctx.ob("C12.R1-budget-dominates-launch", tn.ast, ok,
               "the exceeded side of the budget test never launches" if ok else
               "the exceeded side of the budget test can still reach self.run()", construct="exceeded => no launch")
    # unlimited only for -1, and the test is on max_restarts
    for (tn, lab) in unl:
        ctx.ob("C12.R1-budget-dominates-launch", tn.ast, True, "unlimited restarts only when max_restarts == -1", trivial=True)
    # defaults
    _check_defaults(ctx, fn, cfg)

    # ---------------- R2 -----------------------------------------------------------------------------
    guard_tests = []
    for n in cfg.nodes:
        if n.kind == "test" and isinstance(n.ast, ast.Compare) and isinstance(n.ast.ops[0], ast.In) \
                and isinstance(n.ast.left, ast.Name) and n.ast.left.id == RCTX \
                and isinstance(n.ast.comparators[0], (ast.List, ast.Tuple, ast.Set)):
            keys = {codes_key(e, "restartContexts") for e in n.ast.comparators[0].elts}
            guard_tests.append((n, keys))
    eqs = [(n, codes_key(match.compare_parts(n.ast)[2], "restartContexts")) for n in cfg.nodes
           if n.kind == "test" and match.compare_parts(n.ast) and isinstance(match.compare_parts(n.ast)[0], ast.Name)
           and match.compare_parts(n.ast)[0].id == RCTX and isinstance(match.compare_parts(n.ast)[1], ast.Eq)]
    for rn in run_nodes:
        doms = [(n, keys) for (n, keys) in guard_tests if match.only_via_edges(cfg, rn, [(n, "T")])]
        ok = bool(doms)
        ctx.ob("C12.R2-restartable-reasons-only", rn.ast, ok,
               "self.run() is guarded by a membership test of restartContext" if ok else
               "self.run() is not guarded by a test of the restart context", construct="self.run() <- restartContext guard")
        for (gn, keys) in doms:
            okk = None not in keys and keys <= ALLOWING
            ctx.ob("C12.R2-restartable-reasons-only", gn.ast, okk,
                   "launch-allowing contexts are %s" % sorted(keys) if okk else
                   "the launch guard admits contexts %s beyond %s (e.g. conditions-not-met / not-required / hook-failed "
                   "would start the task again)" % (sorted(str(k) for k in keys - ALLOWING), sorted(ALLOWING)))
            # reaching definitions of restartContext at the guard
            rd = flow.reaching_defs(cfg, RCTX)
            defs = rd.get(gn.id, frozenset())
            in_tests = match.test_nodes(cfg, lambda t: "T" if (
                isinstance(t, ast.Compare) and isinstance(t.ops[0], ast.In) and isinstance(t.left, ast.Name)
                and t.left.id == "reason"
                # the restartHookOn list, directly or through a local bound to it
                and any(isinstance(c_, ast.Constant) and c_.value == "restartHookOn"
                        for v_ in ([t.comparators[0]] + (match.assigned_value(fn, t.comparators[0].id)
                                                         if isinstance(t.comparators[0], ast.Name) else []))
                        for c_ in ast.walk(v_))) else None)
            sub_tests = match.test_nodes(cfg, reason_test("SubmissionFailed"))
            reason_edges = [(n, l) for n, l in in_tests] + [(n, l) for n, l in sub_tests]
            n_defs = 0
            for d in sorted(defs):
                if d < 0:
                    ctx.ob("C12.R2-restartable-reasons-only", gn.ast, False,
                           "restartContext may be undefined at the launch guard", construct="restartContext defined")
                    continue
                val = flow.def_value(cfg, d, RCTX)
                key = codes_key(val, "restartContexts") if val is not None else None
                dn = cfg.nodes[d]
                n_defs += 1
                if key is not None and key not in keys:
                    ctx.ob("C12.R2-restartable-reasons-only", dn.ast, True,
                           "definition restartContext=%s cannot pass the launch guard" % key, trivial=True)
                    continue
                okd = bool(reason_edges) and match.only_via_edges(cfg, dn, reason_edges)
                ctx.ob("C12.R2-restartable-reasons-only", dn.ast, okd,
                       ("definition of a launch-allowing (or hook-provided) restart context is made only when the exit "
                        "reason is listed in restartHookOn or is SubmissionFailed") if okd else
                       ("a launch-allowing restart context (%s) can be assigned although the exit reason is neither in "
                        "restartHookOn nor SubmissionFailed: the task is restarted for a reason the component did not list"
                        % (key or short(val) if val is not None else "non-constant")))
            ctx.floor("C12.R2-restartable-reasons-only", n_defs, 4, "reaching definitions of restartContext at the launch guard")
    # reasons_for_restart is the component's restartHookOn
    vals = match.assigned_value(fn, HOOKON)
    ok = len(vals) == 1 and isinstance(vals[0], ast.Call) and last_attr(vals[0]) == "get" and vals[0].args \
        and isinstance(vals[0].args[0], ast.Constant) and vals[0].args[0].value == "restartHookOn" \
        and "workflowAttributes" in source.src(vals[0].func)
    ctx.ob("C12.R2-restartable-reasons-only", vals[0] if vals else fn, ok,
           "reasons_for_restart is the component's workflowAttributes.restartHookOn" if ok else
           "reasons_for_restart is no longer read from workflowAttributes.restartHookOn")
    # hook answers normalised to members of restartContexts: the finally block ends with a membership test
    norm = [n for n in cfg.nodes if n.kind == "test" and isinstance(n.ast, ast.Compare)
            and isinstance(n.ast.ops[0], ast.NotIn) and isinstance(n.ast.left, ast.Name)
            and n.ast.left.id == RCTX and "restartContexts" in source.src(n.ast.comparators[0])]
    hook_defs = [n for n in cfg.nodes if n.kind == "stmt" and isinstance(n.ast, ast.Assign)
                 and any(isinstance(t, ast.Name) and t.id == RCTX for t in n.ast.targets)
                 and isinstance(n.ast.value, ast.Call) and codes_key(n.ast.value, "restartContexts") is None]
    for hd in hook_defs:
        guards = [g for g, _ in guard_tests]
        const_redefs = [n for n in cfg.nodes if n.kind == "stmt" and isinstance(n.ast, ast.Assign) and n is not hd
                        and any(isinstance(t, ast.Name) and t.id == RCTX for t in n.ast.targets)
                        and codes_key(n.ast.value, "restartContexts") is not None]
        ok = bool(norm) and all(
            (g.id not in cfg.reach([hd], blocked=list(norm) + const_redefs, include_starts=False)) for g in guards)
        ctx.ob("C12.R2-restartable-reasons-only", hd.ast, ok,
               "the hook's answer reaches the launch guard only through the normalisation (unknown values become "
               "RestartContextHookNotAvailable)" if ok else
               "the hook's raw answer can reach the launch guard without being normalised to a known restart context")

    # ---------------- R8 -----------------------------------------------------------------------------
    init = eng.func("Engine.__init__")
    none_in_init = {t.attr for n in source.walk_own(init) if isinstance(n, (ast.Assign, ast.AnnAssign))
                    for t in (n.targets if isinstance(n, ast.Assign) else [n.target])
                    if isinstance(t, ast.Attribute) and isinstance(t.value, ast.Name) and t.value.id == "self"
                    and isinstance(n.value, ast.Constant) and n.value.value is None}
    api_reads = set()
    for q in ("Engine._setExitReason", "Engine.exitReason", "Engine.returncode"):
        f = eng.functions.get(q)
        if f is None:
            continue
        ctx.analysed(f)
        api_reads |= {x.attr for x in ast.walk(f) if isinstance(x, ast.Attribute) and isinstance(x.value, ast.Name) and x.value.id == "self"
                      and isinstance(x.ctx, ast.Load)}
    per_exec = sorted(none_in_init & api_reads)
    ctx.floor("C12.R8-relaunch-from-clean-state", len(per_exec), 2, "per-execution fields read by the exit-reason API")
    for attr in per_exec:
        resets = [n for n in cfg.nodes if n.kind == "stmt" and isinstance(n.ast, ast.Assign) and isinstance(n.ast.value, ast.Constant)
                  and n.ast.value.value is None and any(isinstance(t, ast.Attribute) and t.attr == attr and isinstance(t.value, ast.Name)
                                                        and t.value.id == "self" for t in n.ast.targets)]
        for rn in run_nodes:
            ok = bool(resets) and cfg.every_path_to_passes(rn, gates=resets)
            ctx.ob("C12.R8-relaunch-from-clean-state", rn.ast, ok,
                   "self.%s is reset before the relaunch" % attr if ok else
                   "self.run() is reached without resetting self.%s: until the new task exists (launch delay) the engine still holds the "
                   "previous execution's %s, so a kill() in that window is recorded with the old exit reason (e.g. ResourceExhausted) "
                   "instead of Killed and the component is restarted after having been killed" % (attr, attr),
                   construct="self.%s = None before self.run() in Engine.restart" % attr)

    # ---------------- R3 -----------------------------------------------------------------------------
    incs = [n for n in cfg.nodes if n.kind == "stmt" and isinstance(n.ast, ast.AugAssign)
            and source.src(n.ast.target) == "self.restarts"]
    other_writes = [n for n in cfg.nodes if n.kind == "stmt" and isinstance(n.ast, ast.Assign)
                    and any(source.src(t) == "self.restarts" for t in n.ast.targets)]
    ctx.floor("C12.R3-counters", len(incs), 1, "increments of self.restarts in Engine.restart")
    for n in incs:
        ok = isinstance(n.ast.op, ast.Add) and isinstance(n.ast.value, ast.Constant) and n.ast.value.value == 1
        ctx.ob("C12.R3-counters", n.ast, ok, "restarts is incremented by exactly 1" if ok else "restarts is not incremented by 1")
        ok = bool(exc_tests) and match.only_via_edges(cfg, n, ok_edges)
        ctx.ob("C12.R3-counters", n.ast, ok, "the increment happens only after the budget test passed" if ok else
               "restarts can be incremented without a passed budget test", construct=short(n.ast) + " <- after budget test")
    for n in other_writes:
        ctx.ob("C12.R3-counters", n.ast, False, "self.restarts is reassigned inside Engine.restart (counter can be reset)")
    for rn in run_nodes:
        rng = cfg.count_range(lambda n: n in incs, exits=[rn])
        lo, hi = rng.get(rn.id, (0, 0))
        ctx.ob("C12.R3-counters", rn.ast, hi <= 1,
               "at most one increment of restarts per restart() call" if hi <= 1 else
               "restarts can be incremented %d times in one call" % hi, construct="increments per call <= 1")
        sub_tests = match.test_nodes(cfg, reason_test("SubmissionFailed"))
        blocked = {(n.id, l) for n, l in sub_tests}
        # path-sensitive in the value class of restartContext: 'no' = definitely not launch-allowing
        guard_ids = {g.id for g, _ in guard_tests}

        def step(src, lab, dst, st):
            a = src.ast
            if src.kind == "stmt" and isinstance(a, ast.Assign) and any(
                    isinstance(t, ast.Name) and t.id == RCTX for t in a.targets):
                k = codes_key(a.value, "restartContexts")
                st = "?" if k is None else ("yes" if k in ALLOWING else "no")
            if src.id in guard_ids and lab == "T" and st == "no":
                return None
            if src.id in guard_ids and lab == "F" and st == "yes":
                return None
            return st
        seen = cfg.reach_product(cfg.entry, "?", step, blocked=incs, blocked_edges=blocked)
        ok = not any(nid == rn.id for (nid, _) in seen)
        ctx.ob("C12.R3-counters", rn.ast, ok,
               "every launch whose reason is not SubmissionFailed is preceded by an increment of restarts" if ok else
               "self.run() can be reached for a reason other than SubmissionFailed without incrementing restarts: the "
               "budget is never used up (unbounded restarts)", construct="self.run() <- restarts += 1 unless SubmissionFailed")
    # writers of self.restarts / _resubmissionAttempts across the engine module
    for q, f in eng.functions.items():
        for n in source.walk_own(f):
            tgt = None
            if isinstance(n, ast.AugAssign):
                tgt = n.target
            elif isinstance(n, ast.Assign):
                tgt = n.targets[0]
            if tgt is None:
                continue
            s = source.src(tgt)
            if s == "self.restarts":
                ok = q in ("Engine.restart", "RepeatingEngine.restart", "Engine.__init__") and \
                    (isinstance(n, ast.AugAssign) or q == "Engine.__init__")
                ctx.ob("C12.R3-counters", n, ok, "self.restarts written in %s" % q if ok else
                       "self.restarts is written in %s (only the restart methods may count, nothing may reset)" % q,
                       trivial=(q == "Engine.__init__"))
            if s == "self._resubmissionAttempts":
                if q == "Engine.__init__":
                    continue
                if isinstance(n, ast.AugAssign):
                    ok = q == "Engine.restart"
                    ctx.ob("C12.R3-counters", n, ok, "_resubmissionAttempts incremented in Engine.restart" if ok else
                           "_resubmissionAttempts incremented in %s" % q)
                else:
                    okr = q == "Engine._setExitReason" and isinstance(n.value, ast.Constant) and n.value.value == 0
                    if okr:
                        c2 = CFG(f)
                        nn = c2.nodes_of(n)
                        st = match.test_nodes(c2, reason_test("Success"))
                        okr = bool(nn) and bool(st) and all(match.only_via_edges(c2, x, st) for x in nn)
                    ctx.ob("C12.R3-counters", n, okr,
                           "_resubmissionAttempts is reset to 0 only when the exit reason is Success" if okr else
                           "_resubmissionAttempts is reset in %s outside the 'reason == Success' branch: the cap of "
                           "consecutive resubmissions no longer counts consecutive failures" % q)
    # _resubmissionAttempts += 1 on every initiated SubmissionFailed relaunch
    res_incs = [n for n in cfg.nodes if n.kind == "stmt" and isinstance(n.ast, ast.AugAssign)
                and source.src(n.ast.target) == "self._resubmissionAttempts"]
    sub_tests = match.test_nodes(cfg, reason_test("SubmissionFailed"))
    init_tests = match.test_nodes(cfg, lambda t: "T" if (
        match.compare_parts(t) and isinstance(match.compare_parts(t)[1], ast.Eq) and isinstance(match.compare_parts(t)[0], ast.Name)
        and match.compare_parts(t)[0].id == RCODE and codes_key(match.compare_parts(t)[2], "restartCodes") == "RestartInitiated")
        else None)
    for rn in run_nodes:
        # assume reason == SubmissionFailed and restartCode == RestartInitiated (the value assigned right after run())
        blocked = {(n.id, match.other(l)) for n, l in sub_tests} | {(n.id, match.other(l)) for n, l in init_tests}
        succ = [m for (m, l2) in rn.succ if l2 is None]
        r = cfg.reach(succ, blocked=res_incs, blocked_edges=blocked, ignore_labels=("exc",))
        nxt_ok = bool(succ) and isinstance(succ[0].ast, ast.Assign) and \
            codes_key(succ[0].ast.value, "restartCodes") == "RestartInitiated"
        ok = bool(res_incs) and bool(init_tests) and nxt_ok and cfg.exit.id not in r
        ctx.ob("C12.R3-counters", rn.ast, ok,
               "an initiated relaunch after SubmissionFailed always increments _resubmissionAttempts" if ok else
               "an initiated relaunch after SubmissionFailed can return without incrementing _resubmissionAttempts: "
               "the controller's cap of five consecutive resubmissions never triggers",
               construct="SubmissionFailed relaunch => _resubmissionAttempts += 1")
    for n in res_incs:
        ok = match.only_via_edges(cfg, n, sub_tests) and match.only_via_edges(cfg, n, init_tests)
        ctx.ob("C12.R3-counters", n.ast, ok, "_resubmissionAttempts counts only initiated SubmissionFailed relaunches" if ok else
               "_resubmissionAttempts is incremented outside 'RestartInitiated and reason == SubmissionFailed'",
               construct=short(n.ast) + " <- RestartInitiated and SubmissionFailed")
    # run methods never call restart
    for q in ("Engine.run", "RepeatingEngine.run"):
        f = eng.func(q)
        bad = [c for c in source.calls_in(f, include_nested=True) if last_attr(c) == "restart"]
        ctx.ob("C12.R3-counters", f, not bad, "%s does not call restart" % q if not bad else "%s calls restart" % q,
               construct="%s has no restart call" % q, trivial=True)

    # ---------------- R4 / R5 ---------------------------------------------------------------------------
    rc = ctl.func("Controller._restartComponent")
    ctx.analysed(rc)
    c2 = CFG(rc)
    ctx.paths += c2.paths_count()
    g1 = match.test_nodes(c2, lambda t: "T" if (
        isinstance(t, ast.Compare) and isinstance(t.ops[0], ast.In) and isinstance(t.left, ast.Name) and t.left.id == "exitReason"
        and "restartHookOn" in source.src(t.comparators[0]) and "workflowAttributes" in source.src(t.comparators[0])) else None)
    g2a = match.test_nodes(c2, reason_test("SubmissionFailed", "exitReason"))
    caps_ = cap_tests(rc, c2)
    g2b = [(n, lab) for (n, lab, _exact, _txt) in caps_]
    for (n, lab, exact, txt) in caps_:
        ctx.ob("C12.R4-controller-guards", n.ast, exact,
               "a re-submission is attempted only while the consecutive attempts are strictly below the cap" if exact else
               "the cap test '%s' lets a re-submission through when the attempts EQUAL the cap: six consecutive re-submissions after failed "
               "submissions instead of five" % txt, construct="resubmission cap test: attempts < cap")
    g3 = []
    for n in c2.nodes:
        if n.kind == "test" and isinstance(n.ast, ast.Compare) and isinstance(n.ast.ops[0], ast.NotIn) \
                and isinstance(n.ast.left, ast.Name) and n.ast.left.id == "exitReason" \
                and isinstance(n.ast.comparators[0], (ast.List, ast.Tuple, ast.Set)):
            keys = {codes_key(e, "exitReasons") for e in n.ast.comparators[0].elts}
            g3.append((n, keys))
    restart_nodes = match.nodes_calling(c2, lambda c: last_attr(c) == "restart" and dotted(c.func.value) == "component")
    unstable_nodes = match.nodes_calling(c2, lambda c: last_attr(c) == "_unstableSystemRestart")
    ctx.floor("C12.R4-controller-guards", len(restart_nodes) + len(unstable_nodes), 3, "restart sites in _restartComponent")
    g2b_ok = [(n, l) for n, l in g2b if match.only_via_edges(c2, n, g2a)]
    for rn in restart_nodes + unstable_nodes:
        edges = [(n, l) for n, l in g1] + g2b_ok + [(n, "T") for n, _ in g3]
        ok = bool(edges) and match.only_via_edges(c2, rn, edges)
        ctx.ob("C12.R4-controller-guards", rn.ast, ok,
               "restart is attempted only under restartHookOn / SubmissionFailed-with-budget / unstable-system guards" if ok else
               "component.restart() is reachable outside the three documented guards")
    # R4b: the resubmission cap applies to EVERY restart after a failed submission, also when the component lists
    # SubmissionFailed among its restartable reasons: a restart is reachable only when the reason is known not to be
    # SubmissionFailed, or after the cap test passed
    for rn in restart_nodes + unstable_nodes:
        edges = [(n, match.other(l)) for n, l in g2a] + g2b_ok
        ok = bool(g2a) and bool(g2b_ok) and match.only_via_edges(c2, rn, edges)
        ctx.ob("C12.R4-controller-guards", rn.ast, ok,
               "this restart is reached only for reasons other than SubmissionFailed, or after the resubmission cap test" if ok else
               "this restart can be reached for exitReason == SubmissionFailed without the resubmission cap test (a component that "
               "lists SubmissionFailed in restartHookOn is resubmitted without bound: the engine does not count such restarts either)",
               construct=short(rn.ast, 80) + " <- not SubmissionFailed or cap test")
    for (n, keys) in g3:
        ok = {"Killed", "Cancelled"} <= keys
        ctx.ob("C12.R5-killed-cancelled-excluded", n.ast, ok,
               "the instability guard excludes Killed and Cancelled" if ok else
               "the instability guard no longer excludes Killed/Cancelled: a killed or cancelled task can be restarted")
    # SubmissionFailed branch without budget => RestartMaxAttemptsExceeded
    for (n, l) in g2b:
        succ = [m for (m, l2) in n.succ if l2 == match.other(l)]
        r = c2.reach(succ)
        ok = not any(x.id in r for x in restart_nodes + unstable_nodes)
        ctx.ob("C12.R4-controller-guards", n.ast, ok, "beyond the resubmission cap no restart is attempted" if ok else
               "a restart is still attempted beyond the resubmission cap", construct="resubmission cap exceeded => no restart")
    if not g2b:
        ctx.ob("C12.R4-controller-guards", rc, False,
               "the SubmissionFailed branch no longer compares resubmissionAttempts() with self._max_resubmission_attempts",
               construct="resubmissionAttempts() < self._max_resubmission_attempts")
    # literal 5
    init = ctl.func("Controller.__init__")
    lits = [n for n in source.walk_own(init) if isinstance(n, ast.Assign)
            and any(source.src(t) == "self._max_resubmission_attempts" for t in n.targets)]
    ctx.require(bool(lits), "anchor missing: self._max_resubmission_attempts in Controller.__init__")
    for n in lits:
        ok = isinstance(n.value, ast.Constant) and n.value.value == 5
        ctx.ob("C12.R4-controller-guards", n, ok, "resubmission cap is 5" if ok else
               "resubmission cap is %s, not the documented 5" % short(n.value))
    others = [n for q, f in ctl.functions.items() if q != "Controller.__init__" for n in source.walk_own(f)
              if isinstance(n, (ast.Assign, ast.AugAssign)) and "_max_resubmission_attempts" in
              source.src(n.targets[0] if isinstance(n, ast.Assign) else n.target)]
    for n in others:
        ctx.ob("C12.R4-controller-guards", n, False, "the resubmission cap is modified outside the constructor")
    # _unstableSystemRestart called only from _restartComponent
    for q, f in ctl.functions.items():
        for c in source.calls_in(f):
            if last_attr(c) == "_unstableSystemRestart":
                ok = q == "Controller._restartComponent"
                ctx.ob("C12.R4-controller-guards", c, ok, "_unstableSystemRestart is reached only through the guarded site" if ok else
                       "_unstableSystemRestart is called from %s, outside the guards of _restartComponent" % q)

    # R11: the reason handed on is the reason that was tested
    n11 = 0
    for q in ("Controller._restartComponent", "Controller._unstableSystemRestart"):
        f = ctl.func(q)
        params = {a.arg for a in f.args.args + f.args.kwonlyargs}

        def is_the_reason(e: ast.AST, seen: frozenset = frozenset()) -> bool:
            if isinstance(e, ast.Call) and last_attr(e) == "exitReason" and not e.args:
                return True
            if isinstance(e, ast.IfExp):
                return is_the_reason(e.body, seen) and is_the_reason(e.orelse, seen)
            if isinstance(e, ast.BoolOp) and isinstance(e.op, ast.Or):
                return all(is_the_reason(v, seen) for v in e.values)
            if isinstance(e, ast.Name):
                vals = match.assigned_value(f, e.id)
                if not vals or e.id in seen:
                    return e.id in params       # the reason the caller passed in (a self-reference inside its own re-definition)
                return all(is_the_reason(v, seen | {e.id}) for v in vals)
            return False
        for c in source.calls_in(f):
            if last_attr(c) not in ("restart", "_unstableSystemRestart"):
                continue
            kws = [k.value for k in c.keywords if k.arg in ("reason", "exitReason")]
            if not kws and last_attr(c) == "restart" and c.args:
                kws = [c.args[0]]
            if not kws and last_attr(c) == "_unstableSystemRestart" and len(c.args) >= 2:
                kws = [c.args[1]]
            n11 += 1
            ok = bool(kws) and all(is_the_reason(k) for k in kws)
            ctx.ob("C12.R11-restart-for-the-reason-that-was-filtered", c, ok,
                   "the restart is requested for the exit reason the guards tested" if ok else
                   "%s requests the restart for %s instead of the task's exit reason: the engine applies restartHookOn to the reason it is "
                   "given, so a task that exited for a reason the component does not list (KnownIssue) is started again as if it had been "
                   "ResourceExhausted" % (q.split(".")[-1], short(kws[0], 60) if kws else "no reason at all"),
                   construct="%s: restart(reason=<the exit reason>)" % q.split(".")[-1])
    ctx.floor("C12.R11-restart-for-the-reason-that-was-filtered", n11, 4, "restart requests in _restartComponent / _unstableSystemRestart")

    # R5 schema
    tfc = fir.func("FlowIR.type_flowir_component")
    gb = fir.functions.get("FlowIR.type_flowir_component.generate_blueprint")
    ctx.require(gb is not None, "anchor missing: generate_blueprint in FlowIR.type_flowir_component")
    dro = match.assigned_value(gb, "dont_restart_on")
    rho = match.assigned_value(gb, "restart_hook_on")
    ok = len(dro) == 1 and isinstance(dro[0], (ast.Tuple, ast.List, ast.Set)) and \
        {"Killed", "Cancelled"} <= {codes_key(e, "exitReasons") for e in dro[0].elts}
    ctx.ob("C12.R5-killed-cancelled-excluded", dro[0] if dro else gb, ok,
           "dont_restart_on contains Killed and Cancelled" if ok else "dont_restart_on no longer contains both Killed and Cancelled")
    ok = len(rho) == 1 and isinstance(rho[0], (ast.GeneratorExp, ast.ListComp)) and len(rho[0].generators) == 1 \
        and (dotted(rho[0].generators[0].iter) or "").endswith("exitReasons") and len(rho[0].generators[0].ifs) == 1 \
        and isinstance(rho[0].generators[0].ifs[0], ast.Compare) and isinstance(rho[0].generators[0].ifs[0].ops[0], ast.NotIn) \
        and dotted(rho[0].generators[0].ifs[0].comparators[0]) == "dont_restart_on"
    ctx.ob("C12.R5-killed-cancelled-excluded", rho[0] if rho else gb, ok,
           "admissible restartHookOn values = exitReasons minus dont_restart_on" if ok else
           "admissible restartHookOn values are no longer 'exitReasons minus dont_restart_on'")
    uses = [n for n in source.walk_own(gb) if isinstance(n, ast.Call) and call_name(n) == "key" and n.args
            and isinstance(n.args[0], ast.Constant) and n.args[0].value == "restartHookOn"]
    ok = False
    for u in uses:
        p = source.parent(u)
        if isinstance(p, ast.Dict):
            idx = [i for i, k in enumerate(p.keys) if k is u]
            if idx:
                v = p.values[idx[0]]
                ok = "restart_hook_on" in source.names_in(v) and "ValidateMany" in source.src(v)
    ctx.ob("C12.R5-killed-cancelled-excluded", uses[0] if uses else gb, ok,
           "the restartHookOn schema admits only the restartable exit reasons (or a variable reference)" if ok else
           "the restartHookOn schema no longer restricts entries to the restartable exit reasons")

    # ---------------- R6 -----------------------------------------------------------------------------------
    cr = wf.func("ComponentState.restart")
    ctx.analysed(cr)
    c3 = CFG(cr)
    rn3 = match.nodes_calling(c3, lambda c: last_attr(c) == "restart" and "engine" in (dotted(c.func.value) or ""))
    sh = match.test_nodes(c3, lambda t: "T" if (dotted(t) or "").endswith("engine.isShutdown") else None)
    ctx.require(bool(rn3), "anchor missing: engine.restart call in ComponentState.restart")
    for n in rn3:
        ok = bool(sh) and match.only_via_edges(c3, n, [(x, "F") for x, _ in sh])
        ctx.ob("C12.R6-refusals", n.ast, ok, "the engine is restarted only when it is not shut down" if ok else
               "ComponentState.restart can restart an engine that has been shut down")
    for (x, _) in sh:
        succ = [m for (m, l2) in x.succ if l2 == "T"]
        r = c3.reach(succ)
        ok = c3.exit.id not in r
        ctx.ob("C12.R6-refusals", x.ast, ok, "restart after shutdown raises" if ok else
               "restart after shutdown returns normally instead of raising", construct="isShutdown => raise")
    # the decision takes time (a restart hook may run for long): the relaunch is gated by a test of the engine's shutdown flag that
    # comes AFTER the hook was called - a component that was given its final state in that window must not get a new task
    er_ = eng.func("Engine.restart")
    c_er = CFG(er_)
    hook_calls = [n for n in c_er.nodes if n.ast is not None and n.kind in ("stmt", "test") and any(
        isinstance(c, ast.Call) and isinstance(c.func, ast.Name) and any(k.arg == "exitReason" for k in c.keywords) for c in own_calls(n.ast))]
    relaunch = match.nodes_calling(c_er, lambda c: call_name(c) == "self.run")
    ctx.require(bool(hook_calls) and bool(relaunch), "anchor missing: the restart hook call / self.run() in Engine.restart")
    sd_tests = match.test_nodes(c_er, lambda t: match.polarity(t, lambda e: isinstance(e, ast.Attribute) and e.attr in ("isShutdown", "_shutdown")
                                                                  and isinstance(e.value, ast.Name) and e.value.id == "self"))
    for rl in relaunch:
        # from the hook call to the relaunch: every path passes the 'not shut down' side of such a test, or a statement that a
        # shut-down engine reaches only through the test's T side and that forces a refusing context
        gated = False
        for (tn, lab) in sd_tests:
            t_side = [m_ for (m_, l2) in tn.succ if l2 == lab]
            refusing = [n for n in c_er.nodes if n.kind == "stmt" and isinstance(n.ast, ast.Assign) and isinstance(n.ast.value, ast.Subscript)
                        and isinstance(n.ast.value.slice, ast.Constant) and n.ast.value.slice.value in ("RestartContextRestartNotPossible", "RestartContextRestartConditionsNotMet")
                        and n.id in c_er.reach(t_side, blocked=[tn])]
            # the test follows the hook on every path hook -> relaunch, and its T side (shut down) forces a refusing context
            after_hook = all(not _reaches_without(c_er, h, rl, tn) for h in hook_calls)
            forces = bool(refusing) and all(m_.id in {r_.id for r_ in refusing} or c_er.every_path_from_passes(m_, refusing, exits=[rl]) or m_ in refusing for m_ in t_side)
            direct = match.only_via_edges(c_er, rl, [(tn, match.other(lab))])
            if after_hook and (forces or direct):
                gated = True
        ctx.ob("C12.R6-refusals", rl.ast, gated,
               "the relaunch is decided after a test of the shutdown flag that follows the hook" if gated else
               "Engine.restart launches the new task without looking at the shutdown flag after the restart hook returned: a component that is "
               "given its final state while the hook runs (stage teardown, finish(SHUTDOWN)) still gets a task started, which nothing stops",
               construct="Engine.restart: self.run() <- not shut down after the hook")
    rr = eng.func("RepeatingEngine.restart")
    ctx.analysed(rr)
    c4 = CFG(rr)
    starts = match.nodes_calling(c4, lambda c: last_attr(c) == "start")
    ctx.require(bool(starts), "anchor missing: thread start in RepeatingEngine.restart")
    t_re = match.test_nodes(c4, reason_test("ResourceExhausted"))
    t_zero = match.test_nodes(c4, lambda t: "T" if (match.compare_parts(t) and source.src(match.compare_parts(t)[0]) == "self.restarts"
                                                    and isinstance(match.compare_parts(t)[1], ast.Eq)
                                                    and isinstance(match.compare_parts(t)[2], ast.Constant)
                                                    and match.compare_parts(t)[2].value == 0) else None)
    incs4 = [n for n in c4.nodes if n.kind == "stmt" and isinstance(n.ast, ast.AugAssign) and source.src(n.ast.target) == "self.restarts"]
    for s_ in starts:
        ok = bool(t_re) and match.only_via_edges(c4, s_, t_re)
        ctx.ob("C12.R6-refusals", s_.ast, ok, "a repeating engine relaunches only for ResourceExhausted" if ok else
               "a repeating engine can relaunch for a reason other than ResourceExhausted", construct="thread start <- ResourceExhausted")
        t_listed = match.test_nodes(c4, lambda t: "T" if (match.compare_parts(t) and isinstance(match.compare_parts(t)[1], ast.In)
                                                          and isinstance(match.compare_parts(t)[0], ast.Name) and match.compare_parts(t)[0].id == "reason"
                                                          and any(isinstance(k, ast.Constant) and k.value == "restartHookOn"
                                                                  for k in ast.walk(match.resolve_local(rr, match.compare_parts(t)[2])))) else None)
        ok = bool(t_listed) and match.only_via_edges(c4, s_, t_listed)
        ctx.ob("C12.R6-refusals", s_.ast, ok, "a repeating engine relaunches only for a reason listed in restartHookOn" if ok else
               "RepeatingEngine.restart relaunches without consulting workflowAttributes.restartHookOn: a repeating component declared with "
               "'restartHookOn: [KnownIssue]' (or []) is restarted after ResourceExhausted through the controller's unstable-system path",
               construct="thread start <- reason in restartHookOn")
        ok = bool(t_zero) and match.only_via_edges(c4, s_, t_zero)
        ctx.ob("C12.R6-refusals", s_.ast, ok, "a repeating engine relaunches only when it has not restarted before" if ok else
               "a repeating engine can relaunch more than once", construct="thread start <- restarts == 0")
        # the configured maximum is honoured as well (maxRestarts: 0 means "cannot restart at all")
        maxr4 = match.locals_where(rr, lambda v: any(isinstance(c, ast.Constant) and c.value == "maxRestarts" for c in ast.walk(v))
                                   and "workflowAttributes" in source.src(v))
        budget4 = [(n, "F") for n in c4.nodes if n.kind == "test" and n.ast is not None and any(
            exceeded_implies_bound(n.ast, "self.restarts", mx) for mx in maxr4)]
        def unset_or_unlimited(t: ast.AST) -> Optional[str]:
            """edge label on which no maximum applies: the option is None (unset: the engine's own 'at most once' rule remains) or -1"""
            cp = match.compare_parts(t)
            if not cp or not (isinstance(cp[0], ast.Name) and cp[0].id in maxr4):
                return None
            v = cp[2]
            if isinstance(v, ast.Constant) and v.value is None:
                return "T" if isinstance(cp[1], (ast.Is, ast.Eq)) else "F"
            neg1 = (isinstance(v, ast.UnaryOp) and isinstance(v.op, ast.USub) and isinstance(v.operand, ast.Constant) and v.operand.value == 1) \
                or (isinstance(v, ast.Constant) and v.value == -1)
            if neg1:
                return "T" if isinstance(cp[1], ast.Eq) else "F" if isinstance(cp[1], ast.NotEq) else None
            return None
        free4 = match.test_nodes(c4, unset_or_unlimited)
        ok = bool(budget4) and match.only_via_edges(c4, s_, budget4 + free4)
        ctx.ob("C12.R1-budget-dominates-launch", s_.ast, ok,
               "the repeating engine's single restart is launched only on the not-exceeded side of the maxRestarts test" if ok else
               "RepeatingEngine.restart launches without consulting workflowAttributes.maxRestarts: a repeating component declared with "
               "'maxRestarts: 0' whose last task exits with ResourceExhausted is restarted once - more restarts than its maximum",
               construct="RepeatingEngine.restart: thread start <- budget test")
        succ = [m for (m, l2) in s_.succ if l2 is None]
        r = c4.reach(succ, blocked=incs4, ignore_labels=("exc",))
        ok = bool(incs4) and c4.exit.id not in r
        ctx.ob("C12.R6-refusals", s_.ast, ok, "a successful relaunch increments restarts" if ok else
               "a successful relaunch of the repeating engine does not increment restarts (it can happen again)",
               construct="thread start => restarts += 1")

    # ---------------- R7 -----------------------------------------------------------------------------------
    pm = ctl.func("Controller.postMortemCheck")
    c5 = CFG(pm)
    rt = match.test_nodes(c5, lambda e: "T" if (
        isinstance(e, ast.Compare) and isinstance(e.ops[0], ast.Eq) and
        any(isinstance(x, ast.Call) and last_attr(x) == "_restartComponent"
            for x in (match.resolve_local(pm, e.left), match.resolve_local(pm, e.comparators[0]))) and
        any(codes_key(x, "restartCodes") == "RestartInitiated" for x in (e.left, e.comparators[0]))) else None)
    ctx.require(bool(rt), "anchor missing: restart test in postMortemCheck")
    check_refusals_everywhere(ctx, ctl)
    fin = match.nodes_calling(c5, lambda c: call_name(c) == "TransitionComponentToFinalState")
    for (tn, _) in rt:
        succ = [m for (m, l2) in tn.succ if l2 == "F"]
        r = c5.reach(succ, blocked=fin, ignore_labels=("exc",))
        ok = bool(fin) and c5.exit.id not in r
        ctx.ob("C12.R7-refusal-final-state", tn.ast, ok, "a refused restart gives the component its final state" if ok else
               "a refused restart leaves the component without a final state")


def check_maximum_read_verbatim(ctx, eng) -> None:
    """The configured maximum is compared as it was given: 0 means 'cannot restart at all'.  A read that coalesces falsy values
    (`get('maxRestarts') or -1`, `x if x else None`) turns an explicit 0 into 'no limit'."""
    n = 0
    for q in ("Engine.restart", "RepeatingEngine.restart"):
        f = eng.functions.get(q)
        if f is None:
            continue
        for a_ in [x for x in source.walk_own(f) if isinstance(x, ast.Assign)]:
            if not (any(isinstance(c, ast.Constant) and c.value == "maxRestarts" for c in ast.walk(a_.value)) and "workflowAttributes" in source.src(a_.value)):
                continue
            n += 1
            v = a_.value
            coalesced = isinstance(v, ast.BoolOp) or (isinstance(v, ast.IfExp) and not isinstance(v.test, ast.Compare))
            ctx.ob("C12.R1-budget-dominates-launch", a_, not coalesced,
                   "%s reads the maximum as it was given" % q if not coalesced else
                   "%s reads the maximum through a truthiness default (%s): an explicit 'maxRestarts: 0' - the component may not be restarted at all - becomes "
                   "'no limit', and a task that exits with a restartable reason is started again" % (q, short(v, 60)),
                   construct="%s: the maximum is read verbatim" % q)
    ctx.floor("C12.R1-budget-dominates-launch", n, 2, "reads of workflowAttributes.maxRestarts in the two restart functions")


def check_hook_contained(ctx, eng, fn) -> None:
    RID = "C12.R10-hook-outcomes-contained"
    hook_calls = [n for n in source.walk_own(fn) if isinstance(n, ast.Assign) and len(n.targets) == 1 and isinstance(n.targets[0], ast.Name)
                  and n.targets[0].id == RCTX and isinstance(n.value, ast.Call) and isinstance(n.value.func, ast.Name)]
    ctx.floor(RID, len(hook_calls), 1, "calls of the restart hook whose result becomes the restart context")
    tries = [t for t in source.walk_own(fn) if isinstance(t, ast.Try)]
    for hc in hook_calls:
        enclosing = [t for t in tries if any(x is hc for st in t.body for x in ast.walk(st))]
        caught: Dict[str, ast.ExceptHandler] = {}
        for t in enclosing:
            for h in t.handlers:
                names = ["*"] if h.type is None else [source.src(x).split(".")[-1] for x in (h.type.elts if isinstance(h.type, ast.Tuple) else [h.type])]
                for nm in names:
                    caught.setdefault(nm, h)
        # a handler around the hook CALL that records an ALLOWING context (hook not available -> plain restart) is the documented case
        # "the hook could not be read": the I/O error family only.  Any other class there turns a hook that RAISES (e.g. a lazy import
        # of a missing package inside Restart(): ImportError) into a restart instead of a refusal (seed C12-14)
        IO_FAMILY = {"IOError", "OSError", "EnvironmentError", "FileNotFoundError", "PermissionError", "IsADirectoryError", "NotADirectoryError"}
        for t in enclosing:
            for h in t.handlers:
                sets_h = [codes_key(x.value, "restartContexts") for st in h.body for x in ast.walk(st)
                          if isinstance(x, ast.Assign) and any(isinstance(tg, ast.Name) and tg.id == RCTX for tg in x.targets)]
                if not any(k in ALLOWING for k in sets_h if k is not None):
                    continue
                names_h = ["*"] if h.type is None else [source.src(x).split(".")[-1] for x in (h.type.elts if isinstance(h.type, ast.Tuple) else [h.type])]
                wide = [nm for nm in names_h if nm not in IO_FAMILY]
                ctx.ob(RID, h, not wide,
                       "the handler of the hook call that allows a plain restart catches I/O errors only (%s)" % ", ".join(names_h) if not wide else
                       "a handler around the call of the restart hook turns %s raised BY the hook into 'hook not available' - a plain restart: a hook "
                       "that fails (a lazy import of a missing package inside Restart()) restarts the task, up to maxRestarts times, instead of "
                       "refusing the restart and letting the component receive its final state" % ", ".join(wide),
                       construct="hook call: allowing handler <- I/O errors only")
        for need, alts in (("Exception", ("Exception", "BaseException", "*")), ("SystemExit", ("SystemExit", "BaseException", "*"))):
            hs = [caught[a] for a in alts if a in caught]
            ok = bool(hs)
            reason = ""
            if ok:
                h = hs[0]
                reraises = any(isinstance(x, ast.Raise) for st in h.body for x in ast.walk(st))
                sets = [codes_key(x.value, "restartContexts") for st in h.body for x in ast.walk(st)
                        if isinstance(x, ast.Assign) and any(isinstance(t, ast.Name) and t.id == RCTX for t in x.targets)]
                if reraises:
                    ok, reason = False, "its handler re-raises"
                elif not sets or any(k is None or k in ALLOWING for k in sets):
                    ok, reason = False, "its handler does not record a refusing restart context"
            else:
                reason = "no handler around the hook call catches it"
            ctx.ob(RID, hc, ok,
                   "%s raised by the hook is caught and becomes a refusing restart context" % need if ok else
                   "%s raised by the restart hook is not contained (%s): %s leaves Engine.restart, _restartComponent and postMortemCheck "
                   "(which catch Exception only), the component is never finished and never receives its final state" % (
                       need, reason, "a hook that calls sys.exit()" if need == "SystemExit" else "a raising hook"),
                   construct="%s(...) <- except %s" % (source.src(hc.value.func), need))


    # the hook MODULE runs code too - when it is imported.  sys.exit() at module level raises SystemExit out of the import, which the
    # controller's handlers (Exception only) do not stop either
    imports = [c for c in source.calls_in(fn, include_nested=False) if "import" in ((call_name(c) or "").split(".")[-1]).lower()]
    for ic in imports:
        enclosing = [t for t in tries if any(x is ic for st in t.body for x in ast.walk(st))]
        hs = [h for t in enclosing for h in t.handlers if h.type is None or any(
            source.src(x).split(".")[-1] in ("SystemExit", "BaseException") for x in (h.type.elts if isinstance(h.type, ast.Tuple) else [h.type]))]
        ok = bool(hs) and not any(isinstance(x, ast.Raise) for h in hs for st in h.body for x in ast.walk(st))
        ctx.ob(RID, ic, ok,
               "SystemExit raised while the hook module is imported is caught (the fallback hook is used)" if ok else
               "the import of the restart hook module is not enclosed by a handler for SystemExit: a hooks/restart.py that calls sys.exit() at module "
               "level raises SystemExit out of Engine.restart, _restartComponent and postMortemCheck (which catch Exception only) - the component "
               "is neither restarted nor given a final state",
               construct="%s <- except SystemExit" % short(ic, 50))


def check_listener_kept(ctx, eng) -> None:
    """C12.R9: subjects subscribed in __init__ are only replaced when the engine is dead (or re-subscribed by the replacing method)."""
    RID = "C12.R9-final-state-listener-kept"
    cls = eng.cls("Engine")
    init = eng.func("Engine.__init__")
    ctx.analysed(init)

    def self_attr(e: ast.AST) -> Optional[str]:
        return e.attr if isinstance(e, ast.Attribute) and isinstance(e.value, ast.Name) and e.value.id == "self" else None

    def subscribed_attrs(fn: ast.AST) -> Set[str]:
        """self.<X> such that fn contains self.X[.pipe(...)]*.subscribe(...)"""
        out: Set[str] = set()
        for c in source.calls_in(fn):
            if isinstance(c.func, ast.Attribute) and c.func.attr == "subscribe":
                b = c.func.value
                while isinstance(b, ast.Call) and isinstance(b.func, ast.Attribute) and b.func.attr == "pipe":
                    b = b.func.value
                a = self_attr(b)
                if a:
                    out.add(a)
        return out
    subs = subscribed_attrs(init)
    family = [cls] + [k for k in eng.tree.body if isinstance(k, ast.ClassDef) and any(source.src(b).split(".")[-1] == "Engine" for b in k.bases)]
    methods = [m for k in family for m in k.body if isinstance(m, ast.FunctionDef) and m.name != "__init__"]
    # methods that rebind a subscribed attribute (the whole subject is thrown away, with its subscribers)
    rebinders: Dict[str, Set[str]] = {}
    for m in methods:
        hit = {self_attr(t) for n in source.walk_own(m) if isinstance(n, ast.Assign) for t in n.targets if self_attr(t) in subs}
        hit.discard(None)
        if hit and not (hit <= subscribed_attrs(m)):
            rebinders[m.name] = hit
    ctx.require(bool(subs) and bool(rebinders), "anchor missing: a subject subscribed in Engine.__init__ and a method that re-creates it")
    n = 0
    for m in methods:
        if m.name in rebinders:
            continue
        calls = [c for c in source.calls_in(m) if isinstance(c.func, ast.Attribute) and self_attr(c.func) in rebinders]
        if not calls:
            continue
        ctx.analysed(m)
        cfg = CFG(m)
        ctx.paths += cfg.paths_count()
        alive = match.test_nodes(cfg, lambda t: _alive_label(t))
        for c in calls:
            n += 1
            nodes = [nd for nd in cfg.nodes if nd.kind in ("stmt", "test") and nd.ast is not None and any(x is c for x in ast.walk(nd.ast))]
            ok = bool(alive) and bool(nodes) and all(match.only_via_edges(cfg, nd, [(t, match.other(lab)) for (t, lab) in alive]) for nd in nodes)
            what = ", ".join(sorted("self." + a for a in rebinders[self_attr(c.func)]))
            ctx.ob(RID, c, ok,
                   "%s is re-created in %s only on the side of an isAlive() test where the engine is dead" % (what, m.name) if ok else
                   "%s re-creates %s on a path where the engine may still be alive (never run): the handler that Engine.__init__ subscribed "
                   "to deliver a kill before run() listens to the old subject, so when this restart is refused and the controller finishes "
                   "the component, kill() emits into a subject without listeners and the component never receives its final state" % (m.name, what),
                   construct="%s: self.%s() <- only when not alive" % (m.name, self_attr(c.func)))
    ctx.floor(RID, n, 1, "call sites outside __init__ that re-create a subject subscribed in Engine.__init__")


def _alive_label(t: ast.AST) -> Optional[str]:
    """label of the edge on which self.isAlive() is truthy"""
    flip = False
    while isinstance(t, ast.UnaryOp) and isinstance(t.op, ast.Not):
        t, flip = t.operand, not flip
    lab = match.polarity(t, lambda e: isinstance(e, ast.Call) and call_name(e) == "self.isAlive" and not e.args)
    if lab is None:
        return None
    return match.other(lab) if flip else lab


def check_refusals_everywhere(ctx, ctl) -> None:
    """R7 for every caller of _restartComponent: whatever refusal code comes back, the component gets a final state.
    The refusal codes are read from experiment.model.codes.restartCodes; the tests on the returned code are specialised for
    each of them (path-sensitive on that one value)."""
    codes_mod = ctx.repo.module("python/experiment/model/codes.py")
    table = None
    for n in ast.walk(codes_mod.tree):
        if isinstance(n, ast.Assign) and any(isinstance(t, ast.Name) and t.id == "restartCodes" for t in n.targets) and isinstance(n.value, ast.Dict):
            table = [k.value for k in n.value.keys if isinstance(k, ast.Constant)]
    ctx.require(bool(table) and "RestartInitiated" in table, "anchor missing: experiment.model.codes.restartCodes")
    refusals = [k for k in table if k != "RestartInitiated"]
    n_sites = 0
    for q, fn in ctl.functions.items():
        calls = [c for c in source.calls_in(fn, include_nested=False) if last_attr(c) == "_restartComponent"]
        if not calls:
            continue
        cfg = CFG(fn)
        ctx.analysed(fn)
        fin = match.nodes_calling(cfg, lambda c: call_name(c) == "TransitionComponentToFinalState" or (
            last_attr(c) == "finish" and isinstance(c.func, ast.Attribute)))
        for call in calls:
            n_sites += 1
            at = [n for n in cfg.nodes if n.ast is not None and n.kind in ("stmt", "test") and any(c is call for c in own_calls(n.ast))]
            ctx.require(bool(at), "cannot locate the CFG node of %s" % short(call, 50))
            node = at[0]
            var = None
            if node.kind == "stmt" and isinstance(node.ast, ast.Assign) and len(node.ast.targets) == 1 and isinstance(node.ast.targets[0], ast.Name):
                var = node.ast.targets[0].id

            def is_result(e: ast.AST) -> bool:
                return e is call or (var is not None and isinstance(e, ast.Name) and e.id == var)
            tests = []
            for tn in cfg.nodes:
                if tn.kind != "test" or tn.ast is None:
                    continue
                cp = match.compare_parts(tn.ast)
                if not cp or not isinstance(cp[1], (ast.Eq, ast.NotEq, ast.Is, ast.IsNot)):
                    continue
                for a, b in ((cp[0], cp[2]), (cp[2], cp[0])):
                    k = codes_key(b, "restartCodes")
                    if is_result(a) and k:
                        tests.append((tn, k, isinstance(cp[1], (ast.Eq, ast.Is))))
            for code in refusals:
                blocked_edges = []
                for (tn, k, eq) in tests:
                    holds = (code == k) if eq else (code != k)
                    blocked_edges.append((tn.id, "F" if holds else "T"))
                starts = [node] if node.kind == "test" else [m for (m, lab) in node.succ if lab is None]
                # the end of this component's handling: the function exit, or the next iteration of an enclosing loop
                loop_heads = [n for n in cfg.nodes if n.kind == "for" and any(call is x for x in ast.walk(n.ast))]
                r = cfg.reach(starts, blocked=fin, blocked_edges=blocked_edges, ignore_labels=("exc", "raise"))
                escaped = cfg.exit.id in r or any(h.id in r for h in loop_heads)
                ok = bool(fin) and not escaped
                ctx.ob("C12.R7-refusal-final-state", call, ok,
                       "%s: a restart refused with %s leads to a final state" % (q.split(".")[-1], code) if ok else
                       "%s: when _restartComponent answers %s the component is neither restarted nor given a final state (only %s are "
                       "handled): it stays 'running' for ever and Controller.run() never returns" % (
                           q.split(".")[-1], code, ", ".join(sorted({k for _, k, _ in tests})) or "no codes"),
                       construct="%s: %s => final state" % (q.split(".")[-1], code))
    ctx.floor("C12.R7-refusal-final-state", n_sites, 2, "call sites of _restartComponent in the controller")


def _unlimited(t: ast.AST) -> Optional[str]:
    cp = match.compare_parts(t)
    if cp and isinstance(cp[0], ast.Name) and cp[0].id == MAXR:
        v = cp[2]
        neg1 = isinstance(v, ast.UnaryOp) and isinstance(v.op, ast.USub) and isinstance(v.operand, ast.Constant) and v.operand.value == 1
        neg1 = neg1 or (isinstance(v, ast.Constant) and v.value == -1)
        if neg1 and isinstance(cp[1], ast.NotEq):
            return "T"   # 'T' = limited
        if neg1 and isinstance(cp[1], ast.Eq):
            return "F"
    return None


def _check_defaults(ctx, fn, cfg) -> None:
    """max_restarts default table: None -> (-1 if restartHookFile else 3)."""
    defs = [n for n in cfg.nodes if n.kind == "stmt" and isinstance(n.ast, ast.Assign)
            and any(isinstance(t, ast.Name) and t.id == MAXR for t in n.ast.targets)]
    consts = []
    for n in defs:
        v = n.ast.value
        if isinstance(v, ast.Constant) or (isinstance(v, ast.UnaryOp) and isinstance(v.operand, ast.Constant)):
            val = v.value if isinstance(v, ast.Constant) else -v.operand.value
            consts.append((n, val))
    none_tests = match.test_nodes(cfg, lambda t: "T" if (match.compare_parts(t) and isinstance(match.compare_parts(t)[0], ast.Name)
                                                         and match.compare_parts(t)[0].id == MAXR
                                                         and isinstance(match.compare_parts(t)[1], ast.Is)
                                                         and isinstance(match.compare_parts(t)[2], ast.Constant)
                                                         and match.compare_parts(t)[2].value is None) else None)
    hook_tests = match.test_nodes(cfg, lambda t: "T" if (isinstance(t, ast.Call) and last_attr(t) == "get" and t.args
                                                         and isinstance(t.args[0], ast.Constant)
                                                         and t.args[0].value == "restartHookFile") else None)
    src_def = [n for n in defs if isinstance(n.ast.value, ast.Call) and last_attr(n.ast.value) == "get"
               and n.ast.value.args and isinstance(n.ast.value.args[0], ast.Constant) and n.ast.value.args[0].value == "maxRestarts"]
    ctx.ob("C12.R1-budget-dominates-launch", src_def[0].ast if src_def else fn, bool(src_def),
           "max_restarts is read from workflowAttributes.maxRestarts" if src_def else
           "max_restarts is no longer read from workflowAttributes.maxRestarts", construct="max_restarts = workflowAttributes.get('maxRestarts')")
    for (n, val) in consts:
        if val == -1:
            ok = bool(none_tests) and bool(hook_tests) and match.only_via_edges(cfg, n, none_tests) \
                and match.only_via_edges(cfg, n, hook_tests)
            ctx.ob("C12.R1-budget-dominates-launch", n.ast, ok,
                   "unlimited default only when maxRestarts is None and a restart hook file is named" if ok else
                   "the unlimited default (-1) applies outside 'maxRestarts is None and restartHookFile set'")
        else:
            ok = val == 3 and bool(none_tests) and match.only_via_edges(cfg, n, none_tests)
            ctx.ob("C12.R1-budget-dominates-launch", n.ast, ok,
                   "default maximum is 3 when maxRestarts is None and no hook file is named" if ok else
                   "default maximum is %s instead of the documented 3 (or applies when a maximum was given)" % val)
    ctx.floor("C12.R1-budget-dominates-launch", len(consts), 2, "default assignments of max_restarts")
