"""C07 - an instance reloaded from its own files is the same experiment.  See DESIGN.md section C07."""
from __future__ import annotations

import ast
from typing import Dict, List, Optional, Set

from vlib import match, source
from vlib.cfg import CFG, own_calls
from vlib.source import AnalysisError, call_name, dotted, last_attr, short

FLOWIR = "python/experiment/model/frontends/flowir.py"
CONF = "python/experiment/model/conf.py"
GRAPH = "python/experiment/model/graph.py"
CONTROL = "python/experiment/runtime/control.py"
CLS = "FlowIRExperimentConfiguration."


def field_name(consts: Dict[str, str], e: ast.AST) -> Optional[str]:
    if isinstance(e, ast.Constant) and isinstance(e.value, str):
        return e.value
    d = dotted(e) or ""
    if d.split(".")[-1] in consts:
        return consts[d.split(".")[-1]]
    return None


SCOPES = ("DG", "DS", "PG", "PS")
SCOPE_TEXT = {"DG": "variables.default.global", "DS": "variables.default.stages.N", "PG": "variables.<platform>.global",
              "PS": "variables.<platform>.stages.N", None: "(undefined)"}


def _scope_getters(default_platform: bool):
    def is_default_label(e):
        return e is not None and (dotted(e) or "").endswith("LabelDefault")

    def platform_arg(call, pos):
        for k in call.keywords:
            if k.arg == "platform":
                return k.value
        return call.args[pos] if len(call.args) > pos else None

    def dg(call, it):
        return "DG"

    def ds(call, it):
        return "DS"

    def pg(call, it):
        return "DG" if default_platform or is_default_label(platform_arg(call, 0)) else "PG"

    def ps(call, it):
        return "DS" if default_platform or is_default_label(platform_arg(call, 1)) else "PS"
    return {"get_default_global_variables": dg, "get_default_stage_variables": ds,
            "get_platform_global_variables": pg, "get_platform_stage_variables": ps}


def _test_eval(default_platform: bool, true_names):
    def ev(t, it):
        if isinstance(t, ast.Compare) and len(t.ops) == 1 and isinstance(t.left, ast.Name) and t.left.id == "platform" \
                and (dotted(t.comparators[0]) or "").endswith("LabelDefault"):
            if isinstance(t.ops[0], ast.NotEq):
                return not default_platform
            if isinstance(t.ops[0], ast.Eq):
                return default_platform
        if isinstance(t, ast.Name) and t.id in true_names:
            return True
        if isinstance(t, ast.UnaryOp) and isinstance(t.op, ast.Not):
            r = ev(t.operand, it)
            return None if r is None else not r
        if isinstance(t, ast.BoolOp):
            rs = [ev(v, it) for v in t.values]
            if isinstance(t.op, ast.And):
                if any(r is False for r in rs):
                    return False
                return True if all(r is True for r in rs) else None
            if any(r is True for r in rs):
                return True
            return False if all(r is False for r in rs) else None
        return None
    return ev


KEY_PRESERVING = {"pretty_flowir_sort": "re-orders keys, keeps all of them (checked by R1)", "deep_copy": "copy", "deepcopy": "copy",
                  "copy": "copy", "dict": "copy"}


def check_stored_is_instance_output(ctx, conf) -> None:
    rule = "C07.R8-stored-is-instance-output"
    fn = conf.func(CLS + "store_unreplicated_flowir_to_disk")
    ctx.analysed(fn)
    dumps = [c for c in source.calls_in(fn, include_nested=True) if (last_attr(c) or call_name(c) or "") in ("yaml_dump", "dump", "safe_dump")]
    ctx.require(bool(dumps), "anchor missing: yaml dump call in store_unreplicated_flowir_to_disk")
    from vlib import flow
    cfg = CFG(fn)
    # every normal return of the store has written (dump) and published (rename/replace) the description: the only way a new
    # loop iteration or a patched variable reaches the instance directory is this function
    dump_nodes = [n for n in cfg.nodes if n.ast is not None and n.kind in ("stmt", "with") and any(c is d for d in dumps for c in own_calls(n.ast))]
    pub_nodes = [n for n in cfg.nodes if n.ast is not None and n.kind == "stmt" and any(
        (call_name(c) or "") in ("os.rename", "os.replace", "shutil.move") for c in own_calls(n.ast))]
    for what, gates in (("serialised (yaml dump)", dump_nodes), ("published (rename of the temporary file)", pub_nodes)):
        reach_without = cfg.reach([cfg.entry], blocked=gates, ignore_labels=("exc", "raise"))
        ok = bool(gates) and cfg.exit.id not in reach_without
        ctx.ob("C07.R9-store-always-writes", fn, ok,
               "every normal return of store_unreplicated_flowir_to_disk has %s the description" % what if ok else
               "store_unreplicated_flowir_to_disk can return normally without having %s the description: whatever was added "
               "since the last store (a DoWhile iteration instantiated after a restart with updateInstanceFiles=False, patched "
               "variables) never reaches flowir_instance.yaml, and the next reload lacks those components without any error" % what,
               construct="all normal exits of store_unreplicated_flowir_to_disk pass: %s" % what)
    # .. and a failure of the store is REPORTED: a handler of the function does not end in a normal return (the caller - the new loop
    # iteration, parametrize() - must learn that the directory is stale; '_generate_instance_files' records what the store raises)
    for h in [n for n in cfg.nodes if n.kind == "handler"]:
        r_ = cfg.reach([h], blocked=pub_nodes, ignore_labels=("exc", "raise", "uncaught"))
        ok = cfg.exit.id not in r_
        ctx.ob("C07.R9-store-always-writes", h.ast, ok,
               "this handler of the store re-raises" if ok else
               "a handler of store_unreplicated_flowir_to_disk can end in a normal return without the description having been published: an I/O error while "
               "a new loop iteration is stored (disk full, quota, stale handle) is swallowed, the experiment carries on with iteration k in memory "
               "while the directory still describes 0..k-1, and a reload gets fewer components",
               construct="store_unreplicated_flowir_to_disk: handler at %s re-raises" % (short(h.ast.type, 30) if h.ast.type is not None else "bare except"))
    for d in dumps:
        obj = d.args[0] if d.args else None
        chain = []
        ok = False
        bad = None
        at = [n for n in cfg.nodes if n.ast is not None and n.kind in ("stmt", "with") and any(c is d for c in own_calls(n.ast))]
        ctx.require(bool(at), "cannot locate the CFG node of the yaml dump")
        here = at[0].id
        e = obj
        for _ in range(10):
            if isinstance(e, ast.Name):
                rd = flow.reaching_defs(cfg, e.id, ignore_labels=("exc",)).get(here, frozenset())
                if len(rd) != 1 or -1 in rd:
                    bad = "'%s' has %d reaching definitions at this point" % (e.id, len(rd))
                    break
                here = next(iter(rd))
                v = flow.def_value(cfg, here, e.id)
                if v is None:
                    bad = "'%s' is not defined by a plain assignment" % e.id
                    break
                e = v
                continue
            if isinstance(e, ast.Call):
                name = last_attr(e) or (call_name(e) or "").split(".")[-1]
                if name == "instance" and "_unreplicated" in source.src(e.func):
                    ok = True
                    break
                if name in KEY_PRESERVING and e.args:
                    chain.append(name)
                    e = e.args[0]
                    continue
                bad = "%s(...) is not a key-preserving function" % (call_name(e) or name)
                break
            bad = "unrecognised expression %s" % short(e, 50)
            break
        ctx.ob(rule, d, ok and bad is None,
               "the dumped object is instance() of the unreplicated description%s" % ((" through " + ", ".join(reversed(chain))) if chain else "")
               if ok and bad is None else
               "the description written to flowir_instance.yaml is not the output of instance() passed through key-preserving "
               "functions only (%s): e.g. stripping empty containers removes an explicit 'shutdownOn: []' that shadows an inherited "
               "list, so the reloaded component resolves to the inherited value" % bad,
               construct="yaml dump of instance() in store_unreplicated_flowir_to_disk")


def check_scope_precedence(ctx, fl, inst, flowir_lit, consts, rule: str = "C07.R7-flattening-keeps-scope-precedence",
                           consequence: str = "the reloaded components get a different value (user variables are patched in as "
                                              "platform-stage variables)") -> None:
    """R7 (LAYER engine): the writer (instance) and the live resolver (get_component_variables) are sibling
    implementations of one precedence order; compare them on all membership patterns of a name in the four scopes."""
    import itertools
    from vlib import layer
    gcv = fl.func("FlowIRConcrete.get_component_variables")
    ctx.analysed(gcv)
    # the dictionaries that instance() stores as variables.default.global / variables.default.stages
    var_lit = next((v for k, v in zip(flowir_lit.keys, flowir_lit.values) if field_name(consts, k) == "variables"), None)
    ctx.require(isinstance(var_lit, ast.Dict) and len(var_lit.values) == 1 and isinstance(var_lit.values[0], ast.Dict),
                "anchor missing: the 'variables' entry of the dictionary returned by instance() is {default: {global:.., stages:..}}")
    ctx.require((dotted(var_lit.keys[0]) or "").endswith("LabelDefault"),
                "anchor missing: instance() stores its variables under the default platform")
    inner = var_lit.values[0]
    slots = {field_name(consts, k): v for k, v in zip(inner.keys, inner.values)}
    ctx.require(isinstance(slots.get("global"), ast.Name) and isinstance(slots.get("stages"), ast.Name),
                "anchor missing: variables.default.global / .stages of instance() are local dictionaries")
    gname, sname = slots["global"].id, slots["stages"].id
    true_names = {a.arg for a, d in zip(gcv.args.args[-len(gcv.args.defaults):], gcv.args.defaults)
                  if isinstance(d, ast.Constant) and d.value is True and a.arg.startswith("include_")}
    ctx.require(len(true_names) >= 4, "anchor missing: include_* switches (default True) of get_component_variables")

    def untracked_ok(call):     # component-level variables/overrides: same on both sides of the flattening
        return "component" in source.src(call.args[0])

    n_eval = 0
    for default_platform in (False, True):
        labels = ("DG", "DS") if default_platform else SCOPES
        for r in range(len(labels) + 1):
            for combo in itertools.combinations(labels, r):
                pat = frozenset(combo)
                w = layer.new_interp(inst, _scope_getters(default_platform), pat, _test_eval(default_platform, set()),
                                     value_preserving_calls={"fill_in"})
                w.run(inst.body)
                ctx.require(gname in w.env and sname in w.elems,
                            "anchor missing: instance() no longer builds '%s' / '%s[stage]' from the scope getters" % (gname, sname))
                for cell in (w.elems[sname], w.env[gname]):
                    ctx.require(cell.unknown is None, "LAYER: a dictionary stored by instance() is %s" % cell.unknown)
                written = w.elems[sname].value or w.env[gname].value
                rd = layer.new_interp(gcv, _scope_getters(default_platform), pat, _test_eval(default_platform, true_names),
                                      on_untracked_update=untracked_ok)
                rd.run(gcv.body)
                ctx.require(isinstance(rd.returned, ast.Name) and rd.returned.id in rd.env,
                            "anchor missing: get_component_variables returns its layered dictionary")
                ctx.require(rd.env[rd.returned.id].unknown is None, "LAYER: get_component_variables: %s" % rd.env[rd.returned.id].unknown)
                live = rd.env[rd.returned.id].value
                n_eval += 1
                ok = written == live
                where = "{%s}" % ", ".join(SCOPE_TEXT[l] for l in labels if l in pat) if pat else "{}"
                pf = "default platform" if default_platform else "non-default platform"
                ctx.ob(rule, inst, ok,
                       ("%s, name defined in %s: both let %s win" % (pf, where, SCOPE_TEXT[live])) if ok else
                       ("%s, a variable defined in %s: the live experiment resolves it from %s but the stored description "
                        "keeps the value of %s (stage: %s, global: %s) - %s"
                        % (pf, where, SCOPE_TEXT[live], SCOPE_TEXT[written], SCOPE_TEXT[w.elems[sname].value], SCOPE_TEXT[w.env[gname].value],
                           consequence)),
                       construct="instance() scope precedence %s %s" % ("default" if default_platform else "platform", "+".join(sorted(pat)) or "none"),
                       trivial=not pat)
    ctx.floor(rule, n_eval, 20, "scope membership patterns evaluated")


def check_links_are_folders(ctx, fl) -> None:
    rule = "C07.R10-links-are-folders-on-reload"
    fd = fl.func("Manifest.fromDirectory")
    ctx.analysed(fd)
    st = ctx.repo.module("python/experiment/model/storage.py")
    ep = st.func("ExperimentPackage.expandPackageToDirectory")
    links = [c for c in source.calls_in(ep) if call_name(c) == "os.symlink"]
    ctx.ob(rule, links[0] if links else ep, True,
           "deployment %s top-level entries as symbolic links" % ("can create" if links else "does not create"), trivial=True,
           construct="expandPackageToDirectory: os.symlink for ':link' entries")
    # the tests that decide "this entry is a folder"
    dir_tests = []
    for c in ast.walk(fd):
        if isinstance(c, ast.Call):
            cn = call_name(c) or ""
            if cn == "os.path.isdir" or last_attr(c) == "is_dir":
                dir_tests.append(c)
    # the one on the listing root itself does not count
    entry_tests = [c for c in dir_tests if any(isinstance(a, ast.For) for a in source.ancestors(c) if a is not fd)]
    ctx.floor(rule, len(entry_tests), 1, "directory tests on the entries of the listed directory")
    for c in entry_tests:
        nofollow = any(k.arg == "follow_symlinks" and isinstance(k.value, ast.Constant) and k.value.value is False for k in c.keywords)
        # ... or a conjunct that excludes links
        iff = next((a for a in source.ancestors(c) if isinstance(a, ast.If)), None)
        excl = iff is not None and any(isinstance(x, ast.Call) and ((call_name(x) or "") == "os.path.islink" or last_attr(x) == "is_symlink")
                                       for x in ast.walk(iff.test))
        ok = not nofollow and not excl
        ctx.ob(rule, c, ok,
               "an entry that is a link to a directory counts as a top-level folder" if ok else
               "Manifest.fromDirectory does not follow symbolic links when it lists the folders of a directory (%s): a folder that the "
               "manifest placed with ':link' is missing from top_level_folders when the instance is loaded again, so 'reference-data/"
               "table.csv:ref' is parsed as a reference to the component stage0.reference-data and the reload fails (or binds differently)"
               % short(c, 50), construct="fromDirectory: %s follows links" % short(c, 40))


def instance_literal(ctx, fl):
    """(instance function, the dictionary literal it returns, FlowIR string constants) - shared with C04.R9"""
    from checks.c08 import class_constants
    consts = {k: v for k, v in class_constants(fl.cls("FlowIR")).items() if isinstance(v, str)}
    inst = fl.func("FlowIRConcrete.instance")
    ctx.analysed(inst)
    rets = [r for r in source.walk_own(inst) if isinstance(r, ast.Return) and isinstance(r.value, ast.Name)]
    RET = rets[-1].value.id if rets else "flowir"
    lits = [v for v in match.assigned_value(inst, RET) if isinstance(v, ast.Dict)]
    rets = [r for r in rets if r.value.id == RET]
    ctx.require(len(lits) == 1 and bool(rets), "anchor missing: 'flowir = {...}; return flowir' in FlowIRConcrete.instance")
    return inst, lits[0], consts


def run(ctx) -> None:
    from checks.c08 import class_constants
    ctx.explanation = (
        "Structural conditions of the store/reload cycle: the dictionary written by FlowIRConcrete.instance() has a key "
        "for every required top-level field of the FlowIR schema and the pretty-printer keeps unknown keys; $import "
        "components and the selected platform's override are kept; iteration 0 of a DoWhile is not re-created when an "
        "instance is loaded; every instantiated iteration is persisted; writer and loader name the same files; user "
        "variables are patched in before the description is copied and stored. Equality of resolved configurations "
        "before/after a reload needs execution and is not claimed.")
    ctx.rule("C07.R1-no-field-dropped", "instance() emits every required top-level field of the schema; pretty_flowir_sort preserves all keys")
    ctx.rule("C07.R2-imports-and-override", "instance() keeps $import components verbatim and the selected platform's override")
    ctx.rule("C07.R3-no-duplicate-iteration-0", "package_document_load adds the iteration-0 components only when not loading an instance, and registers the document always")
    ctx.rule("C07.R4-iterations-persisted", "the controller instantiates the next iteration with store_flowir_to_disk=True and the graph stores after adding the components")
    ctx.rule("C07.R5-same-file-names", "store, generate and load use the same instance/manifest file names")
    ctx.rule("C07.R6-patch-before-store", "user variables are patched in before the unreplicated copy is taken and stored")
    ctx.rule("C07.R10-links-are-folders-on-reload", "deployment places the manifest's folders by copy or by symbolic link; the discovery of the "
             "top-level folders of an instance directory (Manifest.fromDirectory) must therefore follow links when it asks whether an entry "
             "is a directory")
    ctx.rule("C07.R11-loader-reads-the-stored-file", "what the loader returns for a path is parsed from that file on every load: no function of the "
             "load path writes into a module-level memo (a parse cache keyed by path and modification time answers with the previous "
             "description when the file was stored again within one tick of a coarse file-system clock)")
    ctx.rule("C07.R12-defaults-test-the-key-they-set", "in the default-injection code of flowir.py a statement of the shape "
             "'if <key> not in D: D[<key2>] = <default>' uses one key: testing another key than the one that is set resets a stored value on "
             "every load")
    ctx.rule("C07.R9-store-always-writes", "store_unreplicated_flowir_to_disk writes and publishes the description on every path that returns "
             "normally (no silent early return)")
    ctx.rule("C07.R8-stored-is-instance-output", "what is dumped to flowir_instance.yaml is the dictionary returned by instance(), passed "
             "only through key-preserving functions (pretty_flowir_sort, copies): no lossy transformation (e.g. dropping "
             "empty lists, which are real values that shadow an inherited list) between the two")
    ctx.rule("C07.R13-stored-description-is-never-absent", "the writers of conf/flowir_instance.yaml and conf/manifest.yaml never remove the file they are "
             "about to replace: while it is absent (a fault, or simply another load during the window) a reload silently falls back to the package "
             "and every loop iteration instantiated so far is gone (the C14 write-discipline analysis re-used)")
    ctx.rule("C07.R15-flattened-environments-keep-the-default-layer", "the stored instance folds the selected platform into 'default': each environment "
             "of the platform is layered over the same-named default environment variable by variable (C17.R3's obligation on instance()), "
             "so a reload resolves the environment the writer resolved")
    ctx.rule("C07.R16-layered-answers-are-stored-as-given", "a getter of FlowIRConcrete that lays the platform's entry over the default platform's itself "
             "(virtual environments, application dependencies) is asked by instance() for the selected platform only; its answer for "
             "'default' is not merged in a second time")
    ctx.rule("C07.R14-flattened-components-keep-their-own-layers", "the stored instance folds the selected platform into 'default'; the variables that "
             "FlowIRConcrete.instance() stores for a component come from get_component_variables with every COMPONENT-level layer on (the "
             "component's own variables and those of its override for the platform) - only the global/stage scope layers, which instance() folds "
             "separately, may be switched off")
    ctx.rule("C07.R7-flattening-keeps-scope-precedence", "for every way a variable name can be defined in the default/platform x "
             "global/stage scopes, the single-platform description written by instance() lets the same scope win as "
             "get_component_variables does on the live multi-platform description")

    fl = ctx.repo.module(FLOWIR)
    conf = ctx.repo.module(CONF)
    consts = {k: v for k, v in class_constants(fl.cls("FlowIR")).items() if isinstance(v, str)}

    # ---------------- R1 -------------------------------------------------------------------------------
    inst = fl.func("FlowIRConcrete.instance")
    ctx.analysed(inst)
    rets = [r for r in source.walk_own(inst) if isinstance(r, ast.Return) and isinstance(r.value, ast.Name)]
    RET = rets[-1].value.id if rets else "flowir"
    lits = [v for v in match.assigned_value(inst, RET) if isinstance(v, ast.Dict)]
    rets = [r for r in rets if r.value.id == RET]
    ctx.require(len(lits) == 1 and bool(rets), "anchor missing: 'flowir = {...}; return flowir' in FlowIRConcrete.instance")
    written = {field_name(consts, k) for k in lits[0].keys}
    tfs = fl.func("FlowIR.type_flowir_structure")
    ctx.analysed(tfs)
    schema_rets = [r.value for r in source.walk_own(tfs) if isinstance(r, ast.Return) and isinstance(r.value, ast.Dict)]
    ctx.require(len(schema_rets) == 1, "anchor missing: schema literal of type_flowir_structure")
    required: Set[str] = set()
    optional: Set[str] = set()
    for k in schema_rets[0].keys:
        if isinstance(k, ast.Call) and call_name(k) == "ValidateOptional" and k.args:
            n = field_name(consts, k.args[0])
            if n:
                optional.add(n)
        else:
            n = field_name(consts, k)
            if n:
                required.add(n)
    ctx.floor("C07.R1-no-field-dropped", len(required), 8, "required top-level fields of the FlowIR schema")
    for f in sorted(required):
        ok = f in written
        ctx.ob("C07.R1-no-field-dropped", lits[0], ok, "instance() writes the '%s' field" % f if ok else
               "the stored instance description has no '%s' field although the schema requires it: that part of the "
               "experiment is lost on reload" % f, construct="instance() field %s" % f)
    pfs = fl.func("FlowIR.pretty_flowir_sort")
    ctx.analysed(pfs)
    loops = [n for n in source.walk_own(pfs) if isinstance(n, ast.For) and isinstance(n.iter, ast.Name) and n.iter.id == "flowir"]
    pret = {r.value.id for r in source.walk_own(pfs) if isinstance(r, ast.Return) and isinstance(r.value, ast.Name)}
    ok = any(any(isinstance(s, ast.If) and isinstance(s.test, ast.Compare) and isinstance(s.test.ops[0], ast.NotIn)
                 and isinstance(s.test.comparators[0], ast.Name) and s.test.comparators[0].id in pret
                 and any(isinstance(x, ast.Assign) for x in s.body) for s in lp.body)
             for lp in loops)
    ctx.ob("C07.R1-no-field-dropped", pfs, ok, "pretty_flowir_sort copies keys it does not know about" if ok else
           "pretty_flowir_sort drops top-level keys that are not in its ordering list", construct="for key in flowir: if key not in ret: ret[key] = flowir[key]")
    order = [v for nm in match.locals_where(pfs, lambda v: isinstance(v, ast.List) and len(v.elts) >= 5) for v in match.assigned_value(pfs, nm)]
    listed = {field_name(consts, e) for v in order if isinstance(v, ast.List) for e in v.elts}
    ctx.ob("C07.R1-no-field-dropped", order[0] if order else pfs, True, "ordering list covers %d fields (others are appended)" % len(listed), trivial=True)
    # store_unreplicated uses instance() + pretty sort + dump
    su = conf.func(CLS + "store_unreplicated_flowir_to_disk")
    ctx.analysed(su)
    calls = {last_attr(c) for c in source.calls_in(su)}
    ok = {"instance", "pretty_flowir_sort", "yaml_dump"} <= calls
    ctx.ob("C07.R1-no-field-dropped", su, ok, "the stored file is instance() -> pretty_flowir_sort -> yaml_dump" if ok else
           "store_unreplicated_flowir_to_disk no longer dumps the sorted instance()", construct="instance -> pretty_flowir_sort -> yaml_dump")
    icall = [c for c in source.calls_in(su) if last_attr(c) == "instance"]
    for c in icall:
        kw = {k.arg: k.value for k in c.keywords}
        ok = isinstance(kw.get("is_primitive"), ast.Constant) and kw["is_primitive"].value is True and \
            isinstance(kw.get("fill_in_all"), ast.Constant) and kw["fill_in_all"].value is False and \
            "_unreplicated" in source.src(c.func)
        ctx.ob("C07.R1-no-field-dropped", c, ok, "the unreplicated description is stored in primitive, non-filled form" if ok else
               "the stored description is not the primitive, unfilled unreplicated one (variables would be baked in / replicas stored)")

    # ---------------- R10 ------------------------------------------------------------------------------
    check_links_are_folders(ctx, fl)

    # ---------------- R7 -------------------------------------------------------------------------------
    check_scope_precedence(ctx, fl, inst, lits[0], consts)
    n12 = 0
    for q, f in fl.functions.items():
        if not q.split(".")[-1].startswith("inject_default"):
            continue
        for iff in source.walk_own(f):
            if not isinstance(iff, ast.If):
                continue
            cp = match.compare_parts(iff.test)
            if not (cp and isinstance(cp[1], ast.NotIn) and isinstance(cp[0], ast.Constant) and isinstance(cp[0].value, str) and len(iff.body) == 1):
                continue
            st = iff.body[0]
            if not (isinstance(st, ast.Assign) and len(st.targets) == 1 and isinstance(st.targets[0], ast.Subscript)
                    and isinstance(st.targets[0].slice, ast.Constant) and source.src(st.targets[0].value) == source.src(cp[2])):
                continue
            n12 += 1
            ctx.analysed(f)
            ok = st.targets[0].slice.value == cp[0].value
            ctx.ob("C07.R12-defaults-test-the-key-they-set", iff, ok,
                   "the default of %r is set only when %r is absent" % (st.targets[0].slice.value, cp[0].value) if ok else
                   "%s sets the default of %r whenever %r is absent - another key: a value of %r that was computed by the runtime and stored "
                   "with the instance is reset to the default every time the description is loaded" % (
                       q, st.targets[0].slice.value, cp[0].value, st.targets[0].slice.value),
                   construct="%s: if %r not in ..: ..[%r] = .." % (q, cp[0].value, st.targets[0].slice.value))
    ctx.floor("C07.R12-defaults-test-the-key-they-set", n12, 3, "'if key not in D: D[key] = default' statements in the default injection of flowir.py")
    from checks.c15 import check_module_memos
    check_module_memos(ctx, "C07.R11-loader-reads-the-stored-file",
                       "an instance that is stored again (e.g. after a DoWhile iteration) and reloaded in the same process comes back without "
                       "what was added since the memo was filled, and the default re-store then overwrites the file with the stale description")

    # ---------------- R8 -------------------------------------------------------------------------------
    check_stored_is_instance_output(ctx, conf)

    # ---------------- R2 -------------------------------------------------------------------------------
    imp_tests = [n for n in source.walk_own(inst) if isinstance(n, ast.If) and "'$import'" in source.src(n.test)]
    keeps = [n for n in imp_tests if isinstance(n.test, ast.Compare) and isinstance(n.test.ops[0], ast.In)
             and any(isinstance(s, ast.Expr) and isinstance(s.value, ast.Call) and last_attr(s.value) == "append" for s in n.body)
             and any(isinstance(s, ast.Continue) for s in n.body)]
    ok = bool(keeps)
    ctx.ob("C07.R2-imports-and-override", keeps[0] if keeps else inst, ok, "$import components are appended unchanged" if ok else
           "instance() no longer keeps $import components verbatim (documents would not be re-imported on reload)")
    skip = [n for n in imp_tests if isinstance(n.test, ast.Compare) and isinstance(n.test.ops[0], ast.NotIn)
            and any(isinstance(x, ast.Call) and last_attr(x) == "get_component_configuration" for s in n.body for x in ast.walk(s))]
    ctx.ob("C07.R2-imports-and-override", skip[0] if skip else inst, bool(skip), "$import components are not resolved like real components" if skip else
           "instance() resolves $import components as if they were real components")
    # <component>['override'] = {platform: <component>['override'][platform]}   (platform is a parameter of instance())
    ov = [n for n in source.walk_own(inst) if isinstance(n, ast.Assign) and isinstance(n.targets[0], ast.Subscript)
          and isinstance(n.targets[0].slice, ast.Constant) and n.targets[0].slice.value == "override"]
    ok = any(isinstance(n.value, ast.Dict) and len(n.value.keys) == 1 and isinstance(n.value.keys[0], ast.Name) and n.value.keys[0].id == "platform"
             and source.src(n.value.values[0]) == source.src(n.targets[0]) + "[platform]" for n in ov)
    ctx.ob("C07.R2-imports-and-override", ov[0] if ov else inst, ok, "only the selected platform's override is kept" if ok else
           "instance() no longer keeps exactly the selected platform's override")
    platf = [v for k, v in zip(lits[0].keys, lits[0].values) if field_name(consts, k) == "platforms"]
    ok = bool(platf) and "platform" in source.names_in(platf[0]) and "LabelDefault" in source.src(platf[0])
    ctx.ob("C07.R2-imports-and-override", platf[0] if platf else lits[0], ok, "the stored platforms are the default and the selected one" if ok else
           "the stored description does not record the selected platform")

    # ---------------- R3 -------------------------------------------------------------------------------
    pdl = fl.func("package_document_load")
    ctx.analysed(pdl)
    cfg = CFG(pdl)
    ctx.paths += cfg.paths_count()
    # roles: (components of iteration 0, new document) unpacked from instantiate_dowhile(..)
    idw = [n for n in source.walk_own(pdl) if isinstance(n, ast.Assign) and isinstance(n.targets[0], ast.Tuple) and len(n.targets[0].elts) == 2
           and all(isinstance(e, ast.Name) for e in n.targets[0].elts) and isinstance(n.value, ast.Call) and call_name(n.value) == "instantiate_dowhile"]
    ctx.require(bool(idw), "anchor missing: <components>, <document> = instantiate_dowhile(..) in package_document_load")
    DWC, DWD = idw[0].targets[0].elts[0].id, idw[0].targets[0].elts[1].id
    ext = match.nodes_calling(cfg, lambda c: last_attr(c) == "extend" and isinstance(c.func.value, ast.Name) and c.args
                              and isinstance(c.args[0], ast.Name) and c.args[0].id == DWC)
    reg = [n for n in cfg.nodes if n.kind == "stmt" and isinstance(n.ast, ast.Assign) and isinstance(n.ast.targets[0], ast.Subscript)
           and isinstance(n.ast.targets[0].value, ast.Name) and isinstance(n.ast.value, ast.Name) and n.ast.value.id == DWD]
    inst_tests = match.test_nodes(cfg, lambda t: match.polarity(t, lambda e: isinstance(e, ast.Name) and e.id == "is_instance"))
    ctx.require(bool(ext) and bool(reg), "anchor missing: new_components.extend(dw_components) / dw_loops[...] in package_document_load")
    for e in ext:
        ok = bool(inst_tests) and match.only_via_edges(cfg, e, [(n, match.other(l)) for n, l in inst_tests])
        ctx.ob("C07.R3-no-duplicate-iteration-0", e.ast, ok, "iteration 0 is generated only when loading a package (not an instance)" if ok else
               "iteration-0 components of a DoWhile are added also when loading an instance: they already exist in the stored "
               "description, so the reload fails with duplicate components / differs from what was stored")
    for r_ in reg:
        ok = not (inst_tests and match.only_via_edges(cfg, r_, [(n, match.other(l)) for n, l in inst_tests]))
        inst_calls = match.nodes_calling(cfg, lambda c: call_name(c) == "instantiate_dowhile")
        ok = ok and bool(inst_calls) and cfg.every_path_to_passes(r_, gates=inst_calls)
        ctx.ob("C07.R3-no-duplicate-iteration-0", r_.ast, ok, "the DoWhile document is registered for packages and instances alike" if ok else
               "the DoWhile document is not registered when loading an instance (the loop could not continue after a reload)")

    # ---------------- R4 -------------------------------------------------------------------------------
    ctl = ctx.repo.module(CONTROL)
    nx = ctl.func("Controller._instantiate_next_dowhile_iteration")
    ctx.analysed(nx)
    calls = [c for c in source.calls_in(nx) if last_attr(c) == "instantiate_dowhile_next_iteration"]
    ctx.require(bool(calls), "anchor missing: instantiate_dowhile_next_iteration call in the controller")
    for c in calls:
        val = c.args[2] if len(c.args) > 2 else next((k.value for k in c.keywords if k.arg == "store_flowir_to_disk"), None)
        ok = isinstance(val, ast.Constant) and val.value is True
        ctx.ob("C07.R4-iterations-persisted", c, ok, "the controller asks for the new iteration to be persisted" if ok else
               "the controller instantiates loop iterations without persisting them: a reload loses the iterations created so far")
    g = ctx.repo.module(GRAPH)
    gi = g.func("WorkflowGraph.instantiate_dowhile_next_iteration")
    ctx.analysed(gi)
    c2 = CFG(gi)
    stores = match.nodes_calling(c2, lambda c: last_attr(c) == "store_unreplicated_flowir_to_disk")
    adds = match.nodes_calling(c2, lambda c: last_attr(c) == "add_component")
    assigns = [n for n in c2.nodes if n.kind == "stmt" and isinstance(n.ast, ast.Assign) and source.src(n.ast.targets[0]) == "self.configuration._unreplicated"]
    ok = bool(stores) and bool(adds) and all(any(s.id in c2.reach([a], include_starts=False) for a in adds) for s in stores) and \
        all(c2.every_path_to_passes(s, gates=assigns) for s in stores) if assigns else False
    ctx.ob("C07.R4-iterations-persisted", gi, ok, "the description is stored after the new components were added to the unreplicated description" if ok else
           "store_unreplicated_flowir_to_disk is not reached after the new components are added", construct="add_component ... store_unreplicated_flowir_to_disk")
    recv = {dotted(c.func.value) for a in adds for c in own_calls(a.ast) if last_attr(c) == "add_component"}
    tgt = [v for r_ in recv if r_ and "." not in r_ for v in match.assigned_value(gi, r_)]
    ok = any(source.src(v) == "self.configuration._unreplicated" for v in tgt) or "self.configuration._unreplicated" in recv
    ctx.ob("C07.R4-iterations-persisted", tgt[0] if tgt else gi, ok, "components are added to the configuration's unreplicated description (the one that is stored)" if ok else
           "the new components are added to a description other than the one that is stored")

    # ---------------- R5 -------------------------------------------------------------------------------
    gen = conf.func(CLS + "_generate_instance_files")
    ptm = conf.func(CLS + "_path_to_main_file")

    def file_consts(fn) -> Set[str]:
        return {n.value for n in ast.walk(fn) if isinstance(n, ast.Constant) and isinstance(n.value, str) and n.value.endswith(".yaml")}
    s1, s2, s3 = file_consts(su), file_consts(gen), file_consts(ptm)
    ok = "flowir_instance.yaml" in s1 and "flowir_instance.yaml" in s2 and "flowir_instance.yaml" in s3
    ctx.ob("C07.R5-same-file-names", su, ok, "writer, generator and loader all use conf/flowir_instance.yaml" if ok else
           "instance file name differs: store %s, generate %s, load %s" % (sorted(s1), sorted(s2), sorted(s3)), construct="flowir_instance.yaml in store/generate/load")
    d = [n for n in ast.walk(ptm) if isinstance(n, ast.Dict)]
    ok = bool(d) and any(isinstance(k, ast.Constant) and k.value is True and isinstance(v, ast.Constant) and v.value == "flowir_instance.yaml"
                         for k, v in zip(d[0].keys, d[0].values))
    ctx.ob("C07.R5-same-file-names", ptm, ok, "is_instance=True selects flowir_instance.yaml" if ok else
           "_path_to_main_file no longer maps is_instance=True to flowir_instance.yaml")
    ok = "manifest.yaml" in s2
    ctx.ob("C07.R5-same-file-names", gen, ok, "the manifest is stored as conf/manifest.yaml" if ok else "manifest file name changed in _generate_instance_files")
    for fn, label in ((su, "store"), (gen, "generate")):
        ok = "_conf_dir" in source.src(fn)
        ctx.ob("C07.R5-same-file-names", fn, ok, "%s writes into the configuration directory" % label if ok else "%s no longer writes into self._conf_dir" % label, trivial=True)

    # ---------------- R6 -------------------------------------------------------------------------------
    init = conf.func(CLS + "_initialize")
    ctx.analysed(init)
    c3 = CFG(init)
    patch = match.nodes_calling(c3, lambda c: last_attr(c) == "_patch_in_variable_files")
    copyn = [n for n in c3.nodes if n.kind == "stmt" and isinstance(n.ast, ast.Assign) and any(source.src(t) == "self._unreplicated" for t in n.ast.targets)]
    genc = match.nodes_calling(c3, lambda c: last_attr(c) == "_generate_instance_files")
    ctx.require(bool(patch) and bool(copyn) and bool(genc), "anchor missing in _initialize")
    ok = all(c3.every_path_to_passes(x, gates=patch) for x in copyn)
    ctx.ob("C07.R6-patch-before-store", copyn[0].ast, ok, "user variables are patched in before the unreplicated copy is taken" if ok else
           "the unreplicated copy (which is what gets stored) is taken before the user variables are patched in: they are lost on reload")
    ok = all(c3.every_path_to_passes(x, gates=copyn) for x in genc)
    ctx.ob("C07.R6-patch-before-store", genc[0].ast, ok, "instance files are generated after the unreplicated copy exists" if ok else
           "instance files are generated before the unreplicated copy is taken")
    pc = [c for c in source.calls_in(init) if last_attr(c) == "_patch_in_variable_files"]
    ok = bool(pc) and len(pc[0].args) >= 2 and source.src(pc[0].args[1]) == "self._concrete"
    ctx.ob("C07.R6-patch-before-store", pc[0] if pc else init, ok, "the variables are patched into the description that is then copied" if ok else
           "_patch_in_variable_files is applied to something other than self._concrete")
    # the number of replicas is read from the flattened description that is then stored, not from the live multi-platform layering
    rep = fl.func("FlowIRConcrete.replicate")
    ctx.analysed(rep)
    inst_names = set(match.locals_where(rep, lambda v: isinstance(v, ast.Call) and last_attr(v) == "instance"))
    ar = [c for c in source.calls_in(rep) if last_attr(c) == "apply_replicate"]
    ctx.require(bool(ar) and bool(inst_names), "anchor missing: <local> = self.instance(..) / apply_replicate(..) in FlowIRConcrete.replicate")
    for c in ar:
        def root_of(e: ast.AST, depth: int = 0):
            while isinstance(e, ast.Subscript):
                e = e.value
            if isinstance(e, ast.Name) and e.id not in inst_names and depth < 4:
                vals = match.assigned_value(rep, e.id)
                if len(vals) == 1:
                    return root_of(vals[0], depth + 1)
            return e
        r0 = root_of(c.args[0]) if c.args else None
        r1 = root_of(c.args[1]) if len(c.args) > 1 else None
        ok = isinstance(r0, ast.Name) and isinstance(r1, ast.Name) and r0.id == r1.id and r0.id in inst_names
        ctx.ob("C07.R7-flattening-keeps-scope-precedence", c, ok,
               "the replica counts are read from the variables of the flattened description whose components are replicated" if ok else
               "replicate() takes the variables that decide the number of replicas from %s instead of the flattened description it replicates and "
               "stores: the writer counts replicas with the live default+platform layering, the reload with the baked values of "
               "flowir_instance.yaml - when 'replicate' is reached through another variable that a narrower scope overrides, the two "
               "experiments have different sets of components" % (short(c.args[1], 50) if len(c.args) > 1 else "nothing"),
               construct="replicate: apply_replicate(<instance components>, <instance variables>, ..)")
    from checks.c04 import check_user_layer_every_platform, check_layers_unconditional, option_layer_names
    gcc_ = fl.func("FlowIRConcrete.get_component_configuration")
    ctx.analysed(gcc_)
    seq_name, layer_names = option_layer_names(gcc_)
    check_layers_unconditional(ctx, gcc_, seq_name, layer_names, "C07.R7-flattening-keeps-scope-precedence")
    pvf = conf.func(CLS + "_patch_in_variable_files")
    ctx.analysed(pvf)
    check_user_layer_every_platform(ctx, pvf, "C07.R6-patch-before-store")
    ok = any(isinstance(n.ast.value, ast.Call) and last_attr(n.ast.value) == "copy" and "_concrete" in source.src(n.ast.value) for n in copyn)
    ctx.ob("C07.R6-patch-before-store", copyn[0].ast, ok, "the unreplicated description is a copy of the patched concrete" if ok else
           "self._unreplicated is no longer a copy of the patched self._concrete")

    # ---------------- R13: the stored description is never absent -------------------------------------
    from checks import c14
    from vlib.report import Ctx as _Ctx
    sub_ctx = _Ctx("C14", ctx.tier, ctx.repo)
    for (rel_, q_, lab_) in c14.WRITERS:
        if rel_ == c14.CONF:
            c14.check_writer(sub_ctx, ctx.repo.module(rel_), ctx.repo.module(rel_).func(q_), lab_)
    n13 = 0
    for o in sub_ctx.obligations:
        if o["rule"] in ("C14.A5-destination-never-removed", "C14.A1-temp-then-rename", "C14.A9-temporary-name-is-unique-per-call"):
            o2 = dict(o)
            o2["rule"] = "C07.R13-stored-description-is-never-absent"
            o2["what"] = "[%s] %s" % (o["rule"], o["what"]) + ("" if o["ok"] else
                          " - configurationForExperiment(is_instance=True) then loads the PACKAGE: the components of every DoWhile iteration after 0 are missing")
            ctx.obligations.append(o2)
            n13 += 1
    ctx.functions_analysed |= sub_ctx.functions_analysed
    ctx.floor("C07.R13-stored-description-is-never-absent", n13, 3, "write-discipline obligations of the two conf/ writers re-used from the C14 analysis")

    # ---------------- R14 (obligation): the scope a stored component's variables are resolved in is layered like the live one ----------
    # instance() resolves a component's own variables before it stores them; the lookup table is global scope, then the stage's, then
    # the component's own (what the live resolution does).  Built the other way round a variable that the stage (e.g. the user's
    # variable file, patched into the stage scope) overrides is stored with the global value (seed C07-14).
    inst14 = ctx.repo.module("python/experiment/model/frontends/flowir.py").func("FlowIRConcrete.instance")
    n14 = 0
    for lp in [x for x in source.walk_own(inst14) if isinstance(x, ast.For) and isinstance(x.target, ast.Name)]:
        item = lp.target.id
        ctx_names = {k.value.id for c in ast.walk(lp) if isinstance(c, ast.Call) and last_attr(c) in ("fill_in", "interpolate")
                     for k in c.keywords if k.arg == "context" and isinstance(k.value, ast.Name)}
        if not ctx_names:
            continue
        derived = {item} | {t.id for st in ast.walk(lp) if isinstance(st, ast.Assign) for t in st.targets if isinstance(t, ast.Name)
                            and any(isinstance(y, ast.Name) and y.id == item for y in ast.walk(st.value))}

        def layers(e: ast.AST):
            if isinstance(e, ast.Call) and last_attr(e) in ("copy", "deepcopy", "deep_copy") and isinstance(e.func, ast.Attribute) and not e.args:
                return [e.func.value]
            if isinstance(e, ast.Call) and call_name(e) in ("dict", "copy.copy", "copy.deepcopy", "deep_copy") and e.args:
                return layers(e.args[0]) + [k.value for k in e.keywords if k.arg is None]
            if isinstance(e, ast.Dict) and e.keys and all(k is None for k in e.keys):
                return [v for v in e.values]
            return [e]

        def kind(e: ast.AST) -> str:
            if any(isinstance(y, ast.Name) and y.id in derived for y in ast.walk(e)):
                return "component"
            if isinstance(e, ast.Subscript) and isinstance(e.slice, ast.Name):
                return "stage"
            if isinstance(e, ast.Name):
                return "global"
            return "?"
        for cn in sorted(ctx_names):
            seq = []
            for st in sorted([x for x in ast.walk(lp) if isinstance(x, (ast.Assign, ast.Expr))], key=lambda x: (x.lineno, x.col_offset)):
                if isinstance(st, ast.Assign) and any(isinstance(t, ast.Name) and t.id == cn for t in st.targets):
                    seq = [l_ for l_ in layers(st.value)]
                elif isinstance(st, ast.Expr) and isinstance(st.value, ast.Call) and last_attr(st.value) == "update" \
                        and isinstance(st.value.func.value, ast.Name) and st.value.func.value.id == cn and st.value.args:
                    seq += layers(st.value.args[0])
            kinds = [kind(e) for e in seq]
            if "component" not in kinds or "stage" not in kinds:
                continue            # not the per-component scope
            n14 += 1
            ok = kinds == ["global", "stage", "component"]
            ctx.ob("C07.R14-flattened-components-keep-their-own-layers", lp, ok,
                   "the scope a stored component's variables are resolved in is global, then stage, then the component's own" if ok else
                   "instance() resolves the variables it stores for a component in a scope layered %s (%s): a variable that the stage scope - the "
                   "user's variable file is patched in there - overrides is stored with the GLOBAL value, the reloaded instance resolves "
                   "'%%(N)s/y' to 'a/y' where the live experiment has 'b/y'" % (kinds, ", ".join(short(e, 30) for e in seq)),
                   construct="instance(): per-component scope = global < stage < component")
    ctx.require(n14 >= 1, "anchor missing: the per-component substitution scope of FlowIRConcrete.instance")

    # ---------------- R15: the flattened environments keep the default platform's layer ----------------
    # instance() folds the selected platform into 'default' and the reload reads 'default' only: what the writer resolved for an
    # environment (platform over default, variable by variable) must be what is stored.  The obligation is C17.R3's (seed C07-13).
    from checks import c17
    sub17 = _Ctx("C17", ctx.tier, ctx.repo)
    c17.run(sub17)
    n15 = 0
    for o in sub17.obligations:
        if o["rule"] == "C17.R3-layering" and "instance()" in (o.get("construct") or ""):
            o2 = dict(o)
            o2["rule"] = "C07.R15-flattened-environments-keep-the-default-layer"
            o2["what"] = "[%s] %s" % (o["rule"], o["what"]) + ("" if o["ok"] else
                          " - the stored instance holds the platform's environment only; reloaded, its tasks miss the variables the writer's get_environment() had")
            ctx.obligations.append(o2)
            n15 += 1
    ctx.functions_analysed |= sub17.functions_analysed
    ctx.require(n15 >= 1, "anchor missing: the instance() layering obligation of C17.R3")

    # ---------------- R16: what a platform-layering getter answers is what is stored -------------------
    # A getter of FlowIRConcrete that itself lays the platform's entry over the default platform's (it reads both <field>[platform] and
    # <field>[default]) already answers for the platform.  instance() stores that answer; combining it once more with the getter's
    # answer for 'default' brings back what the platform shadows (defect: a default virtual environment that the platform replaces by
    # folder id was stored next to its replacement, and in front of it).
    fcls = flm_ = ctx.repo.module("python/experiment/model/frontends/flowir.py")
    inst16 = fcls.func("FlowIRConcrete.instance")
    layering = {}
    for q16, f16 in fcls.functions.items():
        if not q16.startswith("FlowIRConcrete.get_") or q16.count(".") != 1:
            continue
        if "platform" not in [a_.arg for a_ in f16.args.args + f16.args.kwonlyargs]:
            continue
        def reads(e, what):
            if isinstance(e, ast.Subscript):
                k_ = e.slice
            elif isinstance(e, ast.Call) and last_attr(e) == "get" and e.args:
                k_ = e.args[0]
            else:
                return False
            return (isinstance(k_, ast.Name) and k_.id == "platform") if what == "platform" else (dotted(k_) or "").endswith("LabelDefault")
        rp = [x for x in source.walk_own(f16) if reads(x, "platform")]
        rd = [x for x in source.walk_own(f16) if reads(x, "default")]
        if rp and rd and {source.src(x.value if isinstance(x, ast.Subscript) else x.func.value) for x in rp} & \
                {source.src(x.value if isinstance(x, ast.Subscript) else x.func.value) for x in rd}:
            layering[f16.name] = f16
    ctx.require(len(layering) >= 2, "anchor missing: the platform-layering getters of FlowIRConcrete (found %s)" % sorted(layering))
    for c_ in source.calls_in(inst16, include_nested=False):
        if last_attr(c_) in layering and isinstance(c_.func, ast.Attribute) and dotted(c_.func.value) == "self":
            argv = list(c_.args) + [k.value for k in c_.keywords]
            dflt = any((dotted(a_) or "").endswith("LabelDefault") for a_ in argv)
            ctx.ob("C07.R16-layered-answers-are-stored-as-given", c_, not dflt,
                   "instance() asks %s for the selected platform" % last_attr(c_) if not dflt else
                   "instance() also asks %s for the DEFAULT platform and combines the two answers, although the getter lays the platform over the "
                   "default itself: an entry of the default platform that the selected platform shadows is stored next to (and before) its "
                   "replacement, so the reloaded instance answers ['/a/venv', '/a/other', '/b/venv'] where the writer answered ['/b/venv', '/a/other']"
                   % last_attr(c_), construct="instance(): %s(platform) stored as answered" % last_attr(c_))

    # ---------------- R14: the flattened component keeps its own layers ---------------------------------
    flm = ctx.repo.module("python/experiment/model/frontends/flowir.py")
    gcv = flm.func("FlowIRConcrete.get_component_variables")
    inst_fn = flm.func("FlowIRConcrete.instance")
    ctx.analysed(gcv)
    comp_locals = set(match.locals_where(gcv, lambda v: isinstance(v, ast.Call) and last_attr(v) == "get_component"))
    gparams = {a_.arg for a_ in gcv.args.args + gcv.args.kwonlyargs}
    comp_level: Set[str] = set()
    for iff in [x for x in source.walk_own(gcv) if isinstance(x, ast.If)]:
        guards = {x.id for x in ast.walk(iff.test) if isinstance(x, ast.Name) and x.id in gparams}
        from_comp = any(isinstance(c_, ast.Call) and last_attr(c_) == "update" and any(
            isinstance(y, ast.Name) and y.id in comp_locals for a_ in c_.args for y in ast.walk(a_)) for st_ in iff.body for c_ in ast.walk(st_))
        if guards and from_comp:
            comp_level |= guards
    calls14 = [c_ for c_ in source.calls_in(inst_fn, include_nested=False) if last_attr(c_) == "get_component_variables"]
    ctx.require(bool(calls14), "anchor missing: the call of get_component_variables in FlowIRConcrete.instance")
    for c_ in calls14:
        off = [k.arg for k in c_.keywords if k.arg in comp_level and isinstance(k.value, ast.Constant) and not k.value.value]
        ctx.ob("C07.R14-flattened-components-keep-their-own-layers", c_, not off,
               "instance() stores a component's variables with every component-level layer on (switchable: %s)" % (sorted(comp_level) or "none") if not off else
               "instance() computes the variables it stores for a component with %s=False: the variables of the component's override for the selected "
               "platform are not written into the flattened component, and a reload that does not name the platform (experimentFromInstance, "
               "ewrap.py) resolves the component with the default platform's values ('hi safe' instead of 'hi fast'); that reload stores the "
               "description again without the override block, so the value is gone from the files" % off[0],
               construct="instance(): get_component_variables keeps the component-level layers")
