"""C01 - tasks start only after everything they consume from is finished.

Structural necessary conditions in Controller (runtime/control.py), ComponentState
(runtime/workflow.py) and the engines.  See DESIGN.md section C01.
"""
from __future__ import annotations

import ast
from typing import Dict, List, Optional, Set, Tuple

from vlib import boolx, match, source
from vlib.cfg import CFG, Node, own_calls
from vlib.source import AnalysisError, call_name, dotted, last_attr, short

CONTROL = "python/experiment/runtime/control.py"
WORKFLOW = "python/experiment/runtime/workflow.py"
ENGINE = "python/experiment/runtime/engine.py"

# who may launch: method name -> allowed (file, function) call sites inside the runtime package
LAUNCH_TABLE = {
    "stageIn": {(CONTROL, "Controller.finalize_submit_components"): "controller stages in ready components",
                (WORKFLOW, "ComponentState.stageIn"): "delegation to Job.stageIn of the same component"},
    "run": {(CONTROL, "Controller.finalize_submit_components"): "controller launches staged-in components",
            (WORKFLOW, "ComponentState.run"): "delegation to the engine of the same component",
            (ENGINE, "Engine.restart"): "re-launch inside the engine restart protocol (C12)"},
    "restart": {(CONTROL, "Controller._restartComponent"): "restart protocol (C12)",
                (CONTROL, "Controller._unstableSystemRestart"): "restart protocol (C12)",
                (WORKFLOW, "ComponentState.restart"): "delegation to the engine of the same component"},
    "finalize_submit_components": {(CONTROL, "Controller._schedule"): "scheduler hands over the ready list"},
    "_schedule": {(CONTROL, "Controller.run"): "stage loop"},
}
COMP_DONE_WRITERS = {
    "Controller.finishedCheck": "component observed in its final state",
    "Controller.initialise.init_comps": "components of skipped stages (restart from a later stage)",
    "Controller.kill_all_components": "placeholders / broken nodes when everything is being killed",
}
STAGED_IN_WRITERS = {
    "Controller.finalize_submit_components": "after a successful stageIn",
    "Controller._fake_finish_with_state": "component finished without running",
}


def _self_attr_call(c: ast.Call, attr: str, meth_names: Set[str]) -> bool:
    f = c.func
    return isinstance(f, ast.Attribute) and f.attr in meth_names and isinstance(f.value, ast.Attribute) \
        and f.value.attr == attr and isinstance(f.value.value, ast.Name) and f.value.value.id == "self"


def schedule_roles(sched: ast.AST) -> Dict[str, str]:
    """The locals of Controller._schedule by role (how they are defined), keyed by their spelling on the pinned tree."""
    def over(v, name):
        return isinstance(v, ast.ListComp) and len(v.generators) == 1 and isinstance(v.generators[0].iter, ast.Name) \
            and v.generators[0].iter.id == name
    local_fns = {n.name for n in ast.walk(sched) if isinstance(n, ast.FunctionDef) and n is not sched}
    r: Dict[str, str] = {}
    fin = [c for c in source.calls_in(sched) if last_attr(c) == "finalize_submit_components"]
    r["ready"] = fin[0].args[0].id if fin and fin[0].args and isinstance(fin[0].args[0], ast.Name) else "ready"
    r["producers_failed"] = match.role(sched, lambda v: isinstance(v, ast.ListComp) and "FAILED_STATE" in source.src(v), "producers_failed")
    pf = [v for v in match.assigned_value(sched, r["producers_failed"]) if isinstance(v, ast.ListComp)]
    r["dependencies"] = pf[0].generators[0].iter.id if pf and isinstance(pf[0].generators[0].iter, ast.Name) else "dependencies"
    deps = r["dependencies"]
    r["producers_shutdown"] = match.role(sched, lambda v: over(v, deps) and "SHUTDOWN_STATE" in source.src(v), "producers_shutdown")
    r["is_aggregate"] = match.role(sched, lambda v: "isAggregating" in source.src(v) or (
        "aggregate" in source.src(v) and "workflowAttributes" in source.src(v)), "is_aggregate")
    r["replica_inputs"] = match.role(sched, lambda v: over(v, deps) and len(v.generators[0].ifs) == 1
                                     and isinstance(v.generators[0].ifs[0], ast.Call) and isinstance(v.generators[0].ifs[0].func, ast.Name)
                                     and v.generators[0].ifs[0].func.id in local_fns, "replica_inputs")
    rep = r["replica_inputs"]
    r["non_replica_inputs"] = match.role(sched, lambda v: over(v, deps) and len(v.generators[0].ifs) == 1
                                         and isinstance(v.generators[0].ifs[0], ast.Compare) and isinstance(v.generators[0].ifs[0].ops[0], ast.NotIn)
                                         and dotted(v.generators[0].ifs[0].comparators[0]) == rep, "non_replica_inputs")
    nrep = r["non_replica_inputs"]
    r["shutdown_replicas"] = match.role(sched, lambda v: over(v, rep) and "SHUTDOWN_STATE" in source.src(v), "shutdown_replicas")
    r["shutdown_non_replicas"] = match.role(sched, lambda v: over(v, nrep) and "SHUTDOWN_STATE" in source.src(v), "shutdown_non_replicas")
    return r


def run(ctx) -> None:
    ctx.explanation = (
        "Who-may-launch call-site enumeration, CFG dominance of the dependency/shutdown guards over every "
        "ready.append in Controller._schedule, exhaustive truth table of the producer/subject partition, "
        "single-writer rules for comp_done / comp_staged_in and lock scope, all from the source of control.py, "
        "workflow.py and engine.py. Holds for every interleaving because it constrains the only code that can "
        "launch or mark a component done; it does not model the rx delivery of notifications.")
    for rid, text in [
        ("C01.R1-who-may-launch", "stageIn/run/restart/finalize_submit_components/_schedule are called only from the frozen sites"),
        ("C01.R2-guard-dominates-ready", "every path to ready.append passes the dependency test (satisfied side), "
                                         "the not-staged-in test and the not-done test"),
        ("C01.R3-failed-shutdown-producers", "ready.append is unreachable when producers_failed is non-empty and, for "
                                             "non-aggregating components, when producers_shutdown is non-empty; those "
                                             "branches end in _fake_finish_with_state(SHUTDOWN)"),
        ("C01.R4-deps-satisfied", "_input_dependencies_satisfied returns True only with no active producer and every subject staged in"),
        ("C01.R5-partition", "the producers/subjects filters partition the active predecessors as stated"),
        ("C01.R6-single-writer", "comp_done / comp_staged_in are written only by the frozen functions; node_is_active reads comp_done"),
        ("C01.R7-lock", "scheduling decisions and finishedCheck state inspection run under comp_lock"),
        ("C01.R9-final-states-not-overwritten", "the controller assigns a final controllerState directly (bypassing finish()) only for the stages "
                                                "a restart skipped: the loop is bounded by the stage the run started from, an attribute written "
                                                "only on the first initialise; ComponentState.finish assigns a final state only to a component "
                                                "that has none yet (C02.R12's obligation)"),
        ("C01.R10-one-shot-iterators-read-once", "in the controller a local bound to a one-shot iterator (graph.predecessors(..), map/filter/zip, a "
                                                 "generator expression) is consumed at most once per binding on every path: a second reader - "
                                                 "the scheduling rules themselves, after a log statement sorted() it - sees no producers at all"),
        ("C01.R8-launch-order", "in finalize_submit_components run() is reached only for components that were staged in "
                                "(member of staged_in), and stageIn precedes comp_staged_in.add"),
    ]:
        ctx.rule(rid, text)
    ctx.assume("delivery order of rx notifications (notifyFinished after the engine's final state) is not modelled")
    ctx.assume("implicit exceptions outside try blocks are not modelled")

    ctl = ctx.repo.module(CONTROL)
    wf = ctx.repo.module(WORKFLOW)
    eng = ctx.repo.module(ENGINE)

    # ---------------- R1 ----------------------------------------------------------------------
    scope = [ctl, wf, eng]
    if ctx.tier == "thorough":
        scope = list(ctx.repo.modules())
    n_sites = 0
    for m in scope:
        for q, fn in m.functions.items():
            for c in source.calls_in(fn):
                if not isinstance(c.func, ast.Attribute):
                    continue
                name = c.func.attr
                if name not in LAUNCH_TABLE:
                    continue
                recv = dotted(c.func.value) or source.short(c.func.value, 40)
                if name == "run" and (c.args or c.keywords):
                    continue  # ComponentState.run / Engine.run take no arguments
                in_runtime = m.rel in (CONTROL, WORKFLOW, ENGINE)
                if not in_runtime:
                    # outside the three runtime modules only calls on something called controller/component count
                    if name in ("run",) or not any(t in recv.lower() for t in ("comp", "controller", "engine")):
                        continue
                if name == "run" and m.rel == ENGINE and not (recv == "self" and _is_engine_class(fn)):
                    continue
                if name == "run" and m.rel == CONTROL and recv in ("self",):
                    continue
                if name == "restart" and m.rel == ENGINE:
                    continue
                n_sites += 1
                key = (m.rel, _strip_nested(q))
                allowed = LAUNCH_TABLE[name]
                ok = key in allowed or (m.rel, q) in allowed
                ctx.ob("C01.R1-who-may-launch", c, ok,
                       ("%s.%s() called from allowed site (%s)" % (recv, name, allowed.get(key, ""))) if ok else
                       ("%s.%s() is called from %s, which is not one of the frozen launch sites %s: a task can be "
                        "started outside the scheduler's dependency check"
                        % (recv, name, q, sorted(k[1] for k in allowed))))
                ctx.analysed(fn)
    ctx.floor("C01.R1-who-may-launch", n_sites, 9, "launch-related call sites")

    # ---------------- R2 / R3 : _schedule ----------------------------------------------------------
    sched = ctl.func("Controller._schedule")
    ctx.analysed(sched)
    cfg = CFG(sched)
    ctx.paths += cfg.paths_count()
    R_ = schedule_roles(sched)
    READY, PFAILED, DEPS, PSHUT, ISAGG = R_["ready"], R_["producers_failed"], R_["dependencies"], R_["producers_shutdown"], R_["is_aggregate"]
    ready_nodes = [n for n in cfg.nodes if n.kind == "stmt" and n.ast is not None and any(
        isinstance(c.func, ast.Attribute) and c.func.attr == "append" and dotted(c.func.value) == READY
        for c in own_calls(n.ast))]
    fake_nodes = match.nodes_calling(cfg, lambda c: last_attr(c) == "_fake_finish_with_state")
    ctx.floor("C01.R2-guard-dominates-ready", len(ready_nodes), 1, "ready.append sites in _schedule")

    dep_tests = match.test_nodes(cfg, lambda t: match.polarity_through_locals(
        sched, t, lambda e: isinstance(e, ast.Call) and last_attr(e) == "_input_dependencies_satisfied"))
    staged_tests = match.test_nodes(cfg, lambda t: _membership(t, "comp_staged_in"))
    done_tests = match.test_nodes(cfg, lambda t: _state_in_done(t, sched))
    for rn in ready_nodes:
        ok = match.only_via_edges(cfg, rn, dep_tests)
        ctx.ob("C01.R2-guard-dominates-ready", rn.ast, ok,
               "every path to this ready.append passes _input_dependencies_satisfied(comp) on its satisfied side" if ok
               else "ready.append is reachable without passing the dependency test on its satisfied side: a component "
                    "can be launched while a producer is still active",
               construct=short(rn.ast) + " <- dependency guard")
        ok2 = bool(staged_tests) and match.only_via_edges(cfg, rn, [(n, match.other(l)) for n, l in staged_tests])
        ctx.ob("C01.R2-guard-dominates-ready", rn.ast, ok2,
               "reached only when the component is not already staged in" if ok2 else
               "ready.append is reachable for a component that is already in comp_staged_in: it would be launched twice",
               construct=short(rn.ast) + " <- not-staged-in guard")
        ok3 = bool(done_tests) and match.only_via_edges(cfg, rn, [(n, match.other(l)) for n, l in done_tests])
        ctx.ob("C01.R2-guard-dominates-ready", rn.ast, ok3,
               "reached only when the component is not in a final state" if ok3 else
               "ready.append is reachable for a component whose state is already final",
               construct=short(rn.ast) + " <- not-done guard")

    # R3: producers_failed / producers_shutdown tests
    failed_tests = match.test_nodes(cfg, lambda t: "T" if isinstance(t, ast.Name) and t.id == PFAILED else None)
    shut_tests = match.test_nodes(cfg, lambda t: "T" if isinstance(t, ast.Name) and t.id == PSHUT else None)
    agg_tests = match.test_nodes(cfg, lambda t: "T" if isinstance(t, ast.Name) and t.id == ISAGG else None)
    ctx.require(bool(agg_tests), "anchor missing: is_aggregate test in _schedule")
    # whether a component aggregates is a fact of its OWN specification (isAggregating / isAggregatingLoopedNodes / workflowAttributes
    # 'aggregate'): an operand that looks at the producers - "reads from more than one replicating producer" - puts a non-aggregating
    # consumer under the aggregators' rule, and it is launched although one of its producers was shut down (seed C01-14)
    for v in match.assigned_value(sched, ISAGG):
        operands = list(v.values) if isinstance(v, ast.BoolOp) and isinstance(v.op, ast.Or) else [v]
        foreign = []
        for o in operands:
            own = (isinstance(o, ast.Attribute) and o.attr in ("isAggregating", "isAggregatingLoopedNodes")) or (
                "aggregate" in source.src(o) and "workflowAttributes" in source.src(o) and DEPS not in source.names_in(o))
            if not own or DEPS in source.names_in(o):
                foreign.append(o)
        ctx.ob("C01.R3-failed-shutdown-producers", v, not foreign,
               "is_aggregate is read off the component's own specification" if not foreign else
               "is_aggregate also holds when %s - a condition on the PRODUCERS, not a property of the component: a non-aggregating consumer "
               "of two replicated producers is treated as an aggregator ('shut down only if all replicated inputs are'), so with one producer "
               "SHUTDOWN and the other FINISHED it is launched" % short(foreign[0], 70),
               construct="is_aggregate <- the component's own specification only")
    # the lists tested must be what their names say
    observed_ok = _finish_veto_holds(ctl)
    _check_state_list(ctx, sched, PFAILED, "FAILED_STATE", "C01.R3-failed-shutdown-producers", DEPS, observed_ok)
    _check_state_list(ctx, sched, PSHUT, "SHUTDOWN_STATE", "C01.R3-failed-shutdown-producers", DEPS, observed_ok)
    # .. and they range over EVERY input of the component: the names handed to _true_nodes_from_identifiers are the graph's predecessors of the
    # component, unfiltered, on every reaching definition.  A veto that leaves some inputs out (say the same-stage inputs of a repeating
    # component, 'whose subjects may still be running') launches a consumer of an input that already FAILED or was SHUT DOWN
    from vlib import flow as _flow
    tn_calls = [(n, c) for n in cfg.nodes if n.ast is not None and n.kind in ("stmt", "test") for c in own_calls(n.ast)
                if last_attr(c) == "_true_nodes_from_identifiers" and c.args]

    def all_predecessors(e: ast.AST, at: int, depth: int = 0) -> bool:
        if depth > 5:
            return False
        while isinstance(e, ast.Call) and isinstance(e.func, ast.Name) and e.func.id in ("list", "sorted", "tuple", "set") and e.args:
            e = e.args[0]
        if isinstance(e, ast.Call) and last_attr(e) == "predecessors":
            return True
        if isinstance(e, ast.Name):
            rd = _flow.reaching_defs(cfg, e.id).get(at, frozenset())
            vals = [(d, _flow.def_value(cfg, d, e.id)) for d in rd]
            return bool(vals) and all(v is not None and all_predecessors(v, d, depth + 1) for d, v in vals)
        return False
    for (n, c) in tn_calls:
        ok = all_predecessors(c.args[0], n.id)
        ctx.ob("C01.R3-failed-shutdown-producers", c, ok,
               "the launch veto looks at every predecessor of the component in the graph" if ok else
               "the names whose states decide the launch veto (%s) are not, on every path, all the predecessors of the component in the graph: an input "
               "that is left out - e.g. the same-stage inputs of a repeating component - can be FAILED or SHUT DOWN without stopping the launch; a "
               "repeating, non-aggregating consumer that is held back by a second input is launched after its first input was shut down"
               % short(c.args[0], 40), construct="_schedule: the veto ranges over graph.predecessors(<component>)")
    for rn in ready_nodes:
        ok = match.only_via_edges(cfg, rn, [(n, "F") for n, _ in failed_tests])
        ctx.ob("C01.R3-failed-shutdown-producers", rn.ast, ok,
               "ready.append is reachable only when no producer has FAILED" if ok else
               "ready.append is reachable although a producer is in FAILED state",
               construct=short(rn.ast) + " <- producers_failed empty")
        # non aggregating side: reachable from is_aggregate F edge => must pass producers_shutdown F
        via_nonagg = not match.only_via_edges(cfg, rn, [(n, "T") for n, _ in agg_tests])
        if via_nonagg:
            blocked = {(n.id, "T") for n, _ in agg_tests} | {(n.id, "F") for n, _ in shut_tests}
            r = cfg.reach([cfg.entry], blocked_edges=blocked)
            ok = bool(shut_tests) and rn.id not in r
            ctx.ob("C01.R3-failed-shutdown-producers", rn.ast, ok,
                   "non-aggregating component becomes ready only when no producer is SHUTDOWN" if ok else
                   "a non-aggregating component can become ready although one of its producers is SHUTDOWN",
                   construct=short(rn.ast) + " <- producers_shutdown empty (non-aggregating)")
    # the true sides of those tests end in _fake_finish_with_state(comp, SHUTDOWN_STATE) and never in ready.append
    for tests, label in ((failed_tests, "producers_failed"), (shut_tests, "producers_shutdown")):
        for (tn, _) in tests:
            succ_t = [m for (m, lab) in tn.succ if lab == "T"]
            r = cfg.reach(succ_t, blocked=[n for n in cfg.nodes if n.kind in ("for",)])
            hits_ready = any(rn.id in r for rn in ready_nodes)
            fin = [f for f in fake_nodes if f.id in r and _second_arg_is(f.ast, "SHUTDOWN_STATE")]
            ok = (not hits_ready) and bool(fin)
            ctx.ob("C01.R3-failed-shutdown-producers", tn.ast, ok,
                   "the non-empty %s branch shuts the consumer down and never marks it ready" % label if ok else
                   "the non-empty %s branch does not end in _fake_finish_with_state(comp, SHUTDOWN_STATE) or reaches "
                   "ready.append" % label, construct="if %s: ..." % label)

    # ---------------- R4 ------------------------------------------------------------------------------
    ids = ctl.func("Controller._input_dependencies_satisfied")
    ctx.analysed(ids)
    c2 = CFG(ids)
    ctx.paths += c2.paths_count()
    ret_true = [n for n in c2.nodes if n.kind == "stmt" and isinstance(n.ast, ast.Return)
                and isinstance(n.ast.value, ast.Constant) and n.ast.value.value is True]
    ret_other = [n for n in c2.nodes if n.kind == "stmt" and isinstance(n.ast, ast.Return)
                 and not (isinstance(n.ast.value, ast.Constant) and isinstance(n.ast.value.value, bool))]
    ctx.require(bool(ret_true), "anchor missing: 'return True' in _input_dependencies_satisfied")
    for r_ in ret_other:
        if r_.ast.value is None or (isinstance(r_.ast.value, ast.Constant) and r_.ast.value.value is None):
            # 'no answer': what it means is decided by how the callers read the result.  `f(c) is False` / `f(c) == False` reads None as
            # "satisfied" (None is not False); a truthiness test reads it as "not satisfied"
            readers = []
            for q_, f_ in ctl.functions.items():
                for c_ in source.calls_in(f_, include_nested=True):
                    if last_attr(c_) == "_input_dependencies_satisfied":
                        readers.append((f_, c_))
            ctx.require(bool(readers), "anchor missing: a caller of _input_dependencies_satisfied")
            strict = [c_ for (_, c_) in readers if isinstance(source.parent(c_), ast.Compare) and any(
                isinstance(k_, ast.Constant) and k_.value is False for k_ in source.parent(c_).comparators)]
            ok_none = not strict
            ctx.ob("C01.R4-deps-satisfied", r_.ast, ok_none,
                   "a path without an answer (None) is read as 'not satisfied' by every caller (truthiness tests)" if ok_none else
                   "_input_dependencies_satisfied can return None (%s), and its caller skips a component only when the answer 'is False' (%s): "
                   "None is not False, so 'no answer' is read as 'all dependencies satisfied' - the component goes into the ready list and is "
                   "launched while a producer is still running" % (short(r_.ast, 30), short(source.parent(strict[0]), 70)),
                   construct="_input_dependencies_satisfied: every return is a verdict the caller reads as intended")
            continue
        verdict = _classify_subject_return(r_.ast.value)
        if verdict == "all":
            ctx.ob("C01.R4-deps-satisfied", r_.ast, True, "returns whether ALL active subjects are staged in")
        elif verdict == "some":
            ctx.ob("C01.R4-deps-satisfied", r_.ast, False,
                   "_input_dependencies_satisfied returns true when only SOME active subject is staged in (%s): a repeating "
                   "observer with several same-stage producers is released although one of them has not been launched yet"
                   % short(r_.ast.value, 80))
        else:
            raise AnalysisError("_input_dependencies_satisfied returns an expression the rule cannot classify: %s" % short(r_.ast, 100))
    APROD = match.role(ids, lambda v: isinstance(v, ast.Subscript) and isinstance(v.slice, ast.Constant) and v.slice.value == "producers", "active_producers")
    ASUBJ = match.role(ids, lambda v: isinstance(v, ast.Subscript) and isinstance(v.slice, ast.Constant) and v.slice.value == "subjects", "active_subjects")
    prod_tests = match.test_nodes(c2, _len_positive_of(APROD))
    subj_tests = match.test_nodes(c2, lambda t: _membership(t, "comp_staged_in"))
    # active_producers must be the 'producers' entry of _comp_get_active_predecessors
    vals = match.assigned_value(ids, APROD)
    okp = any(isinstance(v, ast.Subscript) and isinstance(v.slice, ast.Constant) and v.slice.value == "producers"
              for v in vals)
    ctx.ob("C01.R4-deps-satisfied", vals[0] if vals else ids, okp,
           "active_producers is the 'producers' entry of _comp_get_active_predecessors" if okp else
           "active_producers is not taken from the 'producers' entry of _comp_get_active_predecessors")
    for rt in ret_true:
        ok = match.only_via_edges(c2, rt, [(n, match.other(l)) for n, l in prod_tests])
        ctx.ob("C01.R4-deps-satisfied", rt.ast, ok,
               "'return True' is reachable only when there is no active producer" if ok else
               "'return True' is reachable while an active producer exists",
               construct="return True <- no active producer")
        # every subject examined: the loop over active subjects returns False when one is not staged in
        for_nodes = [n for n in c2.nodes if n.kind == "for" and ASUBJ in source.names_in(n.ast.iter)]
        ok2 = bool(for_nodes) and bool(subj_tests)
        if ok2:
            # on the not-staged-in side the function returns False (never reaches return True)
            for (tn, lab) in subj_tests:
                succ = [m for (m, l2) in tn.succ if l2 == match.other(lab)]
                r = c2.reach(succ, blocked=for_nodes)
                if rt.id in r:
                    ok2 = False
            # and return True is reached only through the 'done' edge of the loop over subjects
            blocked = {(f.id, "done") for f in for_nodes}
            if rt.id in c2.reach([c2.entry], blocked_edges=blocked):
                ok2 = False
        ctx.ob("C01.R4-deps-satisfied", rt.ast, ok2,
               "'return True' is reached only after the loop over active subjects completed without finding one "
               "that is not staged in" if ok2 else
               "'return True' can be reached without checking that every active subject is in comp_staged_in",
               construct="return True <- all subjects staged in")

        # a subject that is being finished (put down without having been launched, or on its way to a final state) is not "launched
        # and running": on the finishCalled side the function answers False
        fin_tests = match.test_nodes(c2, lambda t: match.polarity(t, lambda e: isinstance(e, ast.Attribute) and e.attr == "finishCalled"))
        # (only the tests inside the loop over the subjects concern a subject; a test of the component's own flag elsewhere is another matter)
        fin_tests = [(tn, lab) for (tn, lab) in fin_tests if any(tn.ast is x for f in for_nodes for x in ast.walk(f.ast))]
        ok3 = bool(fin_tests) and bool(for_nodes)
        if ok3:
            for (tn, lab) in fin_tests:
                succ = [m for (m, l2) in tn.succ if l2 == lab]
                if rt.id in c2.reach(succ, blocked=for_nodes):
                    ok3 = False
                # ... nor is the subject accepted by going on to the next one: on that side the loop head is not reachable either (a second
                # condition conjoined to the flag - 'and not alive' - lets a subject through that is being finished and still RUNNING,
                # which is exactly the state of a never-launched component between _fake_finish_with_state and its final state; seed C01-15)
                r_all = c2.reach(succ, ignore_labels=("exc", "except", "raise", "uncaught"))
                if any(f.id in r_all for f in for_nodes):
                    ok3 = False
        ctx.ob("C01.R4-deps-satisfied", rt.ast, ok3,
               "a subject whose finish() was called does not satisfy the dependency until it is done" if ok3 else
               "_input_dependencies_satisfied counts a subject as launched as soon as it is in comp_staged_in, also when finish() was already "
               "called on it: _fake_finish_with_state adds a never-launched component to comp_staged_in and its final state arrives "
               "asynchronously, so for a few scheduler passes a repeating observer of a subject that was put down (its own producer shut down) "
               "has no pending dependency and no vetoing producer, and is launched",
               construct="return True <- no subject is being finished")

    # ---------------- R5 ---------------------------------------------------------------------------------
    gap = ctl.func("Controller._comp_get_active_predecessors")
    ctx.analysed(gap)
    _check_partition(ctx, gap)

    # ---------------- R6 ---------------------------------------------------------------------------------
    n_w = 0
    for q, fn in ctl.functions.items():
        for c in source.calls_in(fn):
            for attr, table in (("comp_done", COMP_DONE_WRITERS), ("comp_staged_in", STAGED_IN_WRITERS)):
                if _self_attr_call(c, attr, {"add", "update", "discard", "remove", "clear", "pop",
                                             "difference_update", "intersection_update"}):
                    n_w += 1
                    ok = q in table and c.func.attr in ("add", "update")
                    ctx.ob("C01.R6-single-writer", c, ok,
                           ("self.%s.%s in %s (%s)" % (attr, c.func.attr, q, table.get(q, ""))) if ok else
                           ("self.%s.%s(...) in %s: only %s may add to %s, and nothing may remove from it; "
                            "a premature or retracted entry lets consumers start early (or never)"
                            % (attr, c.func.attr, q, sorted(table), attr)))
        for n in source.walk_own(fn):
            if isinstance(n, (ast.Assign, ast.AugAssign)):
                tg = n.targets if isinstance(n, ast.Assign) else [n.target]
                for t in tg:
                    if isinstance(t, ast.Attribute) and t.attr in ("comp_done", "comp_staged_in") \
                            and isinstance(t.value, ast.Name) and t.value.id == "self":
                        ok = q in ("Controller.__init__", "Controller.parse_workflow_graph") and isinstance(n, ast.Assign)
                        if q == "Controller.__init__":
                            ctx.ob("C01.R6-single-writer", n, True, "initialisation in the constructor", trivial=True)
                        else:
                            n_w += 1
                            ctx.ob("C01.R6-single-writer", n, False,
                                   "self.%s is rebound/augmented in %s outside the constructor" % (t.attr, q))
    ctx.floor("C01.R6-single-writer", n_w, 5, "writes to comp_done/comp_staged_in")
    nia = ctl.func("Controller.node_is_active")
    rets = [n for n in source.walk_own(nia) if isinstance(n, ast.Return)]
    ok = len(rets) == 1 and isinstance(rets[0].value, ast.Compare) and isinstance(rets[0].value.ops[0], ast.NotIn) \
        and match.attr_chain_endswith(rets[0].value.comparators[0], "comp_done")
    ctx.ob("C01.R6-single-writer", rets[0] if rets else nia, ok,
           "node_is_active(n) is exactly 'n not in self.comp_done'" if ok else
           "node_is_active is no longer defined as 'not in self.comp_done': activity of producers has a second source")
    # finishedCheck adds exactly the finished component, in its finally
    fc = ctl.func("Controller.finishedCheck")
    ctx.analysed(fc)
    adds = [c for c in source.calls_in(fc) if _self_attr_call(c, "comp_done", {"add"})]
    for c in adds:
        arg_ok = bool(c.args) and "component" in source.names_in(c.args[0])
        ctx.ob("C01.R6-single-writer", c, arg_ok,
               "finishedCheck adds the reference of the component it was notified about" if arg_ok else
               "finishedCheck adds something other than the notified component to comp_done")
    # comp_staged_in.add in finalize_submit_components comes after the successful stageIn of the same component
    fsc = ctl.func("Controller.finalize_submit_components")
    ctx.analysed(fsc)
    c3 = CFG(fsc)
    ctx.paths += c3.paths_count()
    stage_nodes = match.nodes_calling(c3, lambda c: last_attr(c) == "stageIn")
    add_nodes = match.nodes_calling(c3, lambda c: _self_attr_call(c, "comp_staged_in", {"add"}))
    run_nodes = match.nodes_calling(c3, lambda c: last_attr(c) == "run" and not c.args and not c.keywords
                                    and dotted(c.func.value) != "self")
    ctx.require(bool(stage_nodes) and bool(add_nodes) and bool(run_nodes),
                "anchor missing: stageIn / comp_staged_in.add / run in finalize_submit_components")
    for an_ in add_nodes:
        ok = c3.every_path_to_passes(an_, gates=stage_nodes, ignore_labels=("exc",))
        ctx.ob("C01.R8-launch-order", an_.ast, ok,
               "comp_staged_in.add is reached only after stageIn returned normally" if ok else
               "comp_staged_in.add can be reached without a successful stageIn: repeating consumers of this "
               "component would be released before it is staged")
    for rn in run_nodes:
        # the receiver iterates the local list that only receives staged-in components
        recv = dotted(rn.ast.value.func.value) if isinstance(rn.ast, ast.Expr) and isinstance(rn.ast.value, ast.Call) else None
        loop = None
        for a in source.ancestors(rn.ast):
            if isinstance(a, ast.For) and isinstance(a.target, ast.Name) and a.target.id == recv:
                loop = a
                break
        ok = loop is not None and isinstance(loop.iter, ast.Name)
        lst = loop.iter.id if ok else None
        if ok:
            appends = [n for n in c3.nodes if n.kind == "stmt" and n.ast is not None and any(
                isinstance(c.func, ast.Attribute) and c.func.attr in ("append", "extend", "insert")
                and dotted(c.func.value) == lst for c in own_calls(n.ast))]
            ok = bool(appends) and all(c3.every_path_to_passes(a, gates=stage_nodes, ignore_labels=("exc",))
                                       for a in appends)
            # and the list is not rebound to something else
            binds = match.assigned_value(fsc, lst)
            ok = ok and all(isinstance(b, ast.List) and not b.elts for b in binds)
        ctx.ob("C01.R8-launch-order", rn.ast, ok,
               "run() is invoked only on members of '%s', which only receives components after their stageIn succeeded"
               % lst if ok else
               "run() is invoked on a component that is not guaranteed to have been staged in by this pass")

    # ---------------- R7 ---------------------------------------------------------------------------------
    for rn in ready_nodes + fake_nodes:
        ok = any("comp_lock" in w for w in match.enclosing_with_items(rn.ast))
        ctx.ob("C01.R7-lock", rn.ast, ok,
               "scheduling decision is made inside 'with self.comp_lock'" if ok else
               "scheduling decision is made outside comp_lock: a concurrent finishedCheck can change comp_done between "
               "the dependency test and the decision")
    fin_calls = [c for c in source.calls_in(sched) if last_attr(c) == "finalize_submit_components"]
    for c in fin_calls:
        ok = any("comp_lock" in w for w in match.enclosing_with_items(c))
        ctx.ob("C01.R7-lock", c, ok, "submission happens under comp_lock" if ok else "submission happens outside comp_lock")
    ids_with = [n for n in source.walk_own(ids) if isinstance(n, ast.With)]
    ok = any("comp_lock" in source.src(i.context_expr) for w in ids_with for i in w.items)
    ctx.ob("C01.R7-lock", ids, ok, "_input_dependencies_satisfied holds comp_lock" if ok else
           "_input_dependencies_satisfied does not hold comp_lock", construct="with self.comp_lock in _input_dependencies_satisfied")
    # finishedCheck inspects state under the lock
    state_reads = [n for n in source.walk_own(fc) if isinstance(n, ast.Compare) and match.mentions(n.left, "component.state")]
    for n in state_reads:
        ok = any("comp_lock" in w for w in match.enclosing_with_items(n))
        ctx.ob("C01.R7-lock", n, ok, "finishedCheck inspects the component state under comp_lock" if ok else
               "finishedCheck inspects the component state outside comp_lock")
    ctx.floor("C01.R7-lock", len(state_reads), 2, "state inspections in finishedCheck")

    _check_no_state_overwrite(ctx, ctl)
    _check_one_shot_iterators(ctx, ctl)


# ---------------------------------------------------------------------------------------------------------

def _check_one_shot_iterators(ctx, ctl) -> None:
    from vlib import iters
    rule = "C01.R10-one-shot-iterators-read-once"
    n = 0
    n_fn = 0
    for q, f in ctl.functions.items():
        if q.count(".") > 1:
            continue
        n_fn += 1
        binds = [x for x in source.walk_own(f) if isinstance(x, ast.Assign) and len(x.targets) == 1 and isinstance(x.targets[0], ast.Name)
                 and iters.is_one_shot(x.value)]
        if not binds:
            continue
        n += len(binds)
        ctx.analysed(f)
        doubles = iters.double_consumptions(f)
        hit = {id(d) for (d, _, _) in doubles}
        for (d, r1, r2) in doubles:
            ctx.ob(rule, d, False,
                   "%s binds %s to the one-shot iterator %s and reads it twice on one path (lines %s and %s): the second reader sees an exhausted "
                   "iterator - for _schedule the list of producers is empty, none of the failed-/shut-down-producer rules can fire and the "
                   "component is launched although a producer FAILED or was SHUT DOWN" % (
                       q, d.targets[0].id, short(d.value, 40), getattr(r1.ast, "lineno", "?"), getattr(r2.ast, "lineno", "?")),
                   construct="%s: %s = %s <- consumed once" % (q, d.targets[0].id, short(d.value, 40)))
        for d in binds:
            if id(d) not in hit:
                ctx.ob(rule, d, True, "%s: %s is consumed at most once per binding" % (q, d.targets[0].id),
                       construct="%s: %s = %s <- consumed once" % (q, d.targets[0].id, short(d.value, 40)))
    if n == 0:
        ctx.ob(rule, ctl.tree, True, "no local of the controller is bound to a one-shot iterator (%d functions inspected)" % n_fn,
               construct="controller: no one-shot iterator bindings", trivial=True)
    ctx.floor(rule, n_fn, 20, "functions of the controller inspected for one-shot iterator bindings")


def _check_no_state_overwrite(ctx, ctl) -> None:
    """R9: the scheduling rules read the producers' final states; the only place that writes a final state without going through
    finish() - Controller.initialise marking the stages a restart skips as FINISHED - must be bounded by the stage the run
    STARTED from (an attribute set once, on the first initialise), never by the stage that is being initialised now."""
    rule = "C01.R9-final-states-not-overwritten"
    FINAL = ("FINISHED_STATE", "FAILED_STATE", "SHUTDOWN_STATE")
    n_sites = 0
    for q, fn in ctl.functions.items():
        if not q.startswith("Controller."):
            continue
        for lp in [n for n in source.walk_own(fn) if isinstance(n, ast.For)]:
            marks = [a for a in ast.walk(lp) if isinstance(a, ast.Assign) and any(
                isinstance(t, ast.Attribute) and t.attr == "controllerState" for t in a.targets)
                and (dotted(a.value) or "").split(".")[-1] in FINAL]
            if not marks or not (isinstance(lp.iter, ast.Call) and call_name(lp.iter) == "range"):
                continue
            # only the outermost stage loop
            if any(isinstance(o, ast.For) and o is not lp and any(lp is x for x in ast.walk(o)) and isinstance(o.iter, ast.Call)
                   and call_name(o.iter) == "range" for o in source.walk_own(fn)):
                continue
            n_sites += 1
            ctx.analysed(fn)
            bound = lp.iter.args[-1]
            # the bound is an attribute of self ...
            is_attr = isinstance(bound, ast.Attribute) and isinstance(bound.value, ast.Name) and bound.value.id == "self"
            ok = False
            why = "the loop is bounded by %s" % short(bound, 40)
            if is_attr:
                # ... that is assigned only under "this is the first initialise" (currentStage is None)
                writes = [a for f2 in ctl.functions.values() for a in source.walk_own(f2) if isinstance(a, ast.Assign) and any(
                    isinstance(t, ast.Attribute) and t.attr == bound.attr and isinstance(t.value, ast.Name) and t.value.id == "self" for t in a.targets)]
                guarded = []
                for a in writes:
                    f2 = next(f for f in ctl.functions.values() if any(a is x for x in source.walk_own(f)))
                    if f2.name == "__init__":
                        guarded.append(True)
                        continue
                    ifs = [p for p in source.ancestors(a) if isinstance(p, ast.If) and any(a is x for st_ in p.body for x in ast.walk(st_))]
                    guarded.append(any(isinstance(c, ast.Compare) and isinstance(c.ops[0], ast.Is) and isinstance(c.comparators[0], ast.Constant)
                                       and c.comparators[0].value is None and "currentStage" in source.src(c.left) for p in ifs for c in ast.walk(p.test)))
                ok = bool(writes) and all(guarded)
                why = "self.%s is not written only on the first initialise" % bound.attr if not ok else ""
            ctx.ob(rule, marks[0], ok,
                   "components are marked FINISHED without finish() only for the stages before the one the run started from (self.%s, set on the "
                   "first initialise)" % bound.attr if ok else
                   "%s marks components as finished for range(.., %s) - %s: every initialise of a later stage overwrites the final state of all "
                   "components of the earlier stages, a producer that ended SHUTDOWN or FAILED becomes FINISHED and its consumers in the new stage "
                   "are launched" % (q, short(bound, 40), why),
                   construct="%s: direct final-state marking bounded by the starting stage" % q)
    ctx.floor(rule, n_sites, 1, "loops that assign a final controllerState directly in the controller")
    # ... and finish() itself never replaces a final state: the scheduler launches an aggregating consumer over a SHUTDOWN producer; if a
    # later finish(FAILED) may still turn that producer FAILED (seed C01-13: 'a stopped component keeps the more accurate verdict') the
    # consumer that is already running consumes from a failed producer.  The obligation is C02.R12's.
    from checks import c02
    from vlib.report import Ctx as _Ctx
    sub = _Ctx("C02", ctx.tier, ctx.repo)
    c02.check_finish_handshake(sub, ctx.repo.module(WORKFLOW))
    n12 = 0
    for o in sub.obligations:
        if o["rule"] == "C02.R12-one-final-state":
            o2 = dict(o)
            o2["rule"] = rule
            o2["what"] = "[%s] %s" % (o["rule"], o["what"]) + ("" if o["ok"] else
                          " - a producer the scheduler saw SHUTDOWN (and launched an aggregating consumer over) can become FAILED afterwards")
            ctx.obligations.append(o2)
            n12 += 1
    ctx.functions_analysed |= sub.functions_analysed
    ctx.require(n12 >= 1, "anchor missing: the one-final-state obligations of C02.R12 on ComponentState.finish")


def _classify_subject_return(e: ast.AST) -> str:
    """'all' / 'some' / '?' for a boolean expression about subjects being members of comp_staged_in."""
    txt = source.src(e)
    if "comp_staged_in" not in txt:
        return "?"
    if isinstance(e, ast.Call) and call_name(e) == "all":
        return "all"
    if isinstance(e, ast.Call) and call_name(e) == "any":
        return "some"
    if isinstance(e, ast.Call) and last_attr(e) in ("issuperset",) and "comp_staged_in" in source.src(e.func.value):
        return "all"
    if isinstance(e, ast.Call) and last_attr(e) in ("issubset",) and e.args and "comp_staged_in" in source.src(e.args[0]):
        return "all"
    if isinstance(e, ast.Compare) and len(e.ops) == 1 and isinstance(e.ops[0], (ast.LtE, ast.GtE)):
        small, big = (e.left, e.comparators[0]) if isinstance(e.ops[0], ast.LtE) else (e.comparators[0], e.left)
        if "comp_staged_in" in source.src(big) and "comp_staged_in" not in source.src(small):
            return "all"
    if isinstance(e, ast.UnaryOp) and isinstance(e.op, ast.Not) and isinstance(e.operand, ast.Call) and last_attr(e.operand) == "isdisjoint":
        return "some"
    if isinstance(e, ast.Call) and call_name(e) in ("bool", "len") and e.args and ("intersection" in source.src(e.args[0]) or "&" in source.src(e.args[0])):
        return "some"
    return "?"


def _strip_nested(q: str) -> str:
    parts = q.split(".")
    return ".".join(parts[:2]) if len(parts) > 2 else q


def _is_engine_class(fn: ast.AST) -> bool:
    c = source.enclosing_class(fn)
    return c is not None and "Engine" in c.name


def _membership(t: ast.AST, attr: str) -> Optional[str]:
    """'x in self.<attr>' -> 'T' is the member side; 'x not in self.<attr>' -> 'F'."""
    if isinstance(t, ast.Compare) and len(t.ops) == 1 and match.attr_chain_endswith(t.comparators[0], attr):
        if isinstance(t.ops[0], ast.In):
            return "T"
        if isinstance(t.ops[0], ast.NotIn):
            return "F"
    return None


def _state_in_done(t: ast.AST, fn: ast.AST) -> Optional[str]:
    """'comp.state in done_states' where done_states is the literal list of the three final states."""
    if isinstance(t, ast.Compare) and len(t.ops) == 1 and isinstance(t.ops[0], (ast.In, ast.NotIn)) \
            and match.mentions(t.left, "state") and isinstance(t.comparators[0], ast.Name):
        vals = match.assigned_value(fn, t.comparators[0].id)
        if len(vals) == 1 and isinstance(vals[0], (ast.List, ast.Tuple, ast.Set)):
            names = {(dotted(e) or "").split(".")[-1] for e in vals[0].elts}
            if names == {"FINISHED_STATE", "FAILED_STATE", "SHUTDOWN_STATE"}:
                return "T" if isinstance(t.ops[0], ast.In) else "F"
    return None


def _len_positive_of(name: str):
    def pred(t: ast.AST) -> Optional[str]:
        # len(x) > 0, len(x) != 0, x (truthiness), len(x) == 0 (negative)
        if isinstance(t, ast.Name) and t.id == name:
            return "T"
        if isinstance(t, ast.Compare) and len(t.ops) == 1 and isinstance(t.left, ast.Call) \
                and call_name(t.left) == "len" and t.left.args and isinstance(t.left.args[0], ast.Name) \
                and t.left.args[0].id == name and isinstance(t.comparators[0], ast.Constant):
            v = t.comparators[0].value
            op = t.ops[0]
            if v == 0 and isinstance(op, (ast.Gt, ast.NotEq)):
                return "T"
            if v == 0 and isinstance(op, ast.Eq):
                return "F"
            if v == 1 and isinstance(op, ast.GtE):
                return "T"
        return None
    return pred


def _const_name(fn: Optional[ast.AST], e: ast.AST, depth: int = 0) -> str:
    """last component of a dotted constant such as experiment.model.codes.SHUTDOWN_STATE, followed through a local that is
    just another name for it (SHUTDOWN_STATE = experiment.model.codes.SHUTDOWN_STATE)"""
    d = dotted(e) or ""
    if isinstance(e, ast.Name) and fn is not None and depth < 3:
        vals = match.assigned_value(fn, e.id)
        if len(vals) == 1:
            return _const_name(fn, vals[0], depth + 1)
    return d.split(".")[-1]


def _second_arg_is(node: ast.AST, const_name: str) -> bool:
    for c in own_calls(node):
        if last_attr(c) == "_fake_finish_with_state" and len(c.args) >= 2:
            return _const_name(source.enclosing_def(c), c.args[1]) == const_name
    return False


def _finish_veto_holds(ctl) -> bool:
    """_input_dependencies_satisfied answers False for a subject whose finish() was called (the obligation of R4, decided here without
    recording it): then every dependency that reaches the state tests of _schedule is either observed done or not being finished, and
    the state the controller has OBSERVED (get_node_state) gives the same verdicts as the live state."""
    ids = ctl.func("Controller._input_dependencies_satisfied")
    c2 = CFG(ids)
    ret_true = [n for n in c2.nodes if n.kind == "stmt" and isinstance(n.ast, ast.Return)
                and isinstance(n.ast.value, ast.Constant) and n.ast.value.value is True]
    for_nodes = [n for n in c2.nodes if n.kind == "for"]
    fin_tests = match.test_nodes(c2, lambda t: match.polarity(t, lambda e: isinstance(e, ast.Attribute) and e.attr == "finishCalled"))
    if not (ret_true and for_nodes and fin_tests):
        return False
    for rt in ret_true:
        for (tn, lab) in fin_tests:
            succ = [m for (m, l2) in tn.succ if l2 == lab]
            if rt.id in c2.reach(succ, blocked=for_nodes):
                return False
    return True


def _check_state_list(ctx, fn, name: str, state: str, rule: str, deps: str = "dependencies", observed_ok: bool = False) -> None:
    vals = match.assigned_value(fn, name)
    ctx.require(bool(vals), "anchor missing: %s in %s" % (name, source.qualname(fn)))

    def observed_state_of(e: ast.AST, tgt: str) -> bool:
        """self.get_node_state(<tgt>.specification.reference), or <table>[<tgt>] for a table {pr: self.get_node_state(pr...) for pr in deps}"""
        def is_accessor(x: ast.AST, var: str) -> bool:
            return isinstance(x, ast.Call) and last_attr(x) == "get_node_state" and len(x.args) == 1 \
                and dotted(x.args[0]) == var + ".specification.reference"
        if is_accessor(e, tgt):
            return True
        if isinstance(e, ast.Subscript) and isinstance(e.value, ast.Name) and isinstance(e.slice, ast.Name) and e.slice.id == tgt:
            tables = match.assigned_value(fn, e.value.id)
            return bool(tables) and all(
                isinstance(t, ast.DictComp) and len(t.generators) == 1 and isinstance(t.generators[0].target, ast.Name)
                and isinstance(t.key, ast.Name) and t.key.id == t.generators[0].target.id and not t.generators[0].ifs
                and isinstance(t.generators[0].iter, ast.Name) and t.generators[0].iter.id == deps
                and is_accessor(t.value, t.generators[0].target.id) for t in tables)
        return False
    for v in vals:
        ok = False
        if isinstance(v, ast.ListComp) and len(v.generators) == 1 and len(v.generators[0].ifs) == 1:
            g = v.generators[0]
            cond = g.ifs[0]
            tgt = g.target.id if isinstance(g.target, ast.Name) else None
            cp = match.compare_parts(cond)
            if cp and isinstance(cp[1], ast.Eq) and tgt and (dotted(cp[0]) == tgt + ".state" or (observed_ok and observed_state_of(cp[0], tgt))):
                rhs = _const_name(fn, cp[2])
                ok = rhs == state and isinstance(v.elt, ast.Name) and v.elt.id == tgt \
                    and isinstance(g.iter, ast.Name) and g.iter.id == deps
        ctx.ob(rule, v, ok,
               "%s = the producers whose state is %s" % (name, state) if ok else
               "%s is no longer 'the dependencies whose state == %s'" % (name, state),
               construct="%s = %s" % (name, short(v, 120)))


def _check_partition(ctx, fn: ast.FunctionDef) -> None:
    """R5: truth table of the two comprehension filters over atoms (is_repeat, same_stage)."""
    prod = subj = None
    for n in source.walk_own(fn):
        if isinstance(n, ast.Assign) and len(n.targets) == 1 and isinstance(n.targets[0], ast.Subscript) \
                and isinstance(n.targets[0].slice, ast.Constant) and isinstance(n.value, ast.ListComp):
            if n.targets[0].slice.value == "producers":
                prod = n
            elif n.targets[0].slice.value == "subjects":
                subj = n
    ctx.require(prod is not None and subj is not None,
                "anchor missing: ret['producers'] / ret['subjects'] comprehensions in _comp_get_active_predecessors")

    # roles: the 'is repeating' flag (read from workflowAttributes['isRepeat']), the component's own stage (read from
    # .stageIndex / ParseProducerReference of its own name), the list of active predecessors (filtered by node_is_active)
    IS_REPEAT = match.role(fn, lambda v: "isRepeat" in source.src(v), "comp_is_repeat")
    OWN_STAGE = match.role(fn, lambda v: ("stageIndex" in source.src(v)) or (isinstance(v, ast.Call) and last_attr(v) == "ParseProducerReference"),
                           "comp_stage_idx")
    for n in source.walk_own(fn):     # tuple assignment: stage, _, _ = ParseProducerReference(node_name)
        if isinstance(n, ast.Assign) and isinstance(n.targets[0], ast.Tuple) and isinstance(n.value, ast.Call) \
                and last_attr(n.value) == "ParseProducerReference" and n.targets[0].elts and isinstance(n.targets[0].elts[0], ast.Name):
            stage_names = {n.targets[0].elts[0].id}
            if OWN_STAGE not in stage_names and not match.assigned_value(fn, OWN_STAGE):
                OWN_STAGE = n.targets[0].elts[0].id
    ACTIVE = match.role(fn, lambda v: isinstance(v, ast.ListComp) and any(isinstance(c, ast.Call) and last_attr(c) == "node_is_active"
                                                                           for g in v.generators for c in g.ifs), "active_predecessors")

    # the flag is the workflow's own notion of "repeating" - the isRepeat attribute the engine factory reads (repeatInterval 0 or
    # None both mean "does not repeat": isRepeat = repeatInterval not in [None, 0]) - or the constant False
    def reads_is_repeat(v: ast.AST) -> bool:
        while True:
            if isinstance(v, ast.Call) and call_name(v) == "bool" and len(v.args) == 1:
                v = v.args[0]
                continue
            cp_ = match.compare_parts(v)
            if cp_ and isinstance(cp_[1], (ast.Is, ast.Eq)) and isinstance(cp_[2], ast.Constant) and cp_[2].value is True:
                v = cp_[0]
                continue
            break
        if isinstance(v, ast.Subscript) and isinstance(v.slice, ast.Constant) and v.slice.value == "isRepeat":
            return True
        if isinstance(v, ast.Attribute) and v.attr == "isRepeat":
            return True
        if isinstance(v, ast.Call) and last_attr(v) == "get" and v.args and isinstance(v.args[0], ast.Constant) and v.args[0].value == "isRepeat":
            return len(v.args) == 1 or (isinstance(v.args[1], ast.Constant) and not v.args[1].value)
        return False
    # "same stage" is measured from the CONSUMER's own stage: every definition of the stage that the partition compares the predecessors'
    # stage with is derived from the component handed in (its stageIndex, or the stage prefix of its own reference) - never from the state
    # of the controller.  The scheduler walks every node of the graph, also those of future stages; with the stage that happens to be
    # EXECUTING as the yardstick, a repeating component of a later stage treats a producer of the executing stage as its subject and is
    # launched while that producer is still running
    comp_param = fn.args.args[1].arg if len(fn.args.args) > 1 else None
    stage_defs = [a_ for a_ in source.walk_own(fn) if isinstance(a_, ast.Assign) and any(
        isinstance(x, ast.Name) and x.id == OWN_STAGE and isinstance(x.ctx, ast.Store) for t in a_.targets for x in ast.walk(t))]
    for a_ in stage_defs:
        from_self = [x for x in ast.walk(a_.value) if isinstance(x, ast.Attribute) and isinstance(x.value, ast.Name) and x.value.id == "self"
                     and not (isinstance(source.parent(x), ast.Call) and source.parent(x).func is x)]
        names_ = {x.id for x in ast.walk(a_.value) if isinstance(x, ast.Name)}
        derived = comp_param in names_ or any(comp_param in {y.id for v in match.assigned_value(fn, nm) for y in ast.walk(v) if isinstance(y, ast.Name)}
                                              for nm in names_ - {"self"})
        ok = not from_self and derived
        ctx.ob("C01.R5-partition", a_, ok,
               "the stage the partition measures 'same stage' from is the component's own" if ok else
               "the stage that the producers/subjects partition compares the predecessors' stage with is taken from %s, not from the component itself: "
               "_schedule considers every node of the graph, so a repeating component of a LATER stage then counts a producer of the executing "
               "stage as its subject - it is launched as soon as that producer is staged in, while the producer is still running (and has "
               "already run when the producer later fails)" % (short(from_self[0], 40) if from_self else short(a_.value, 40)),
               construct="_comp_get_active_predecessors: the yardstick stage is the component's own")
    derivations = [a for a in source.walk_own(fn) if isinstance(a, ast.Assign) and any(isinstance(t, ast.Name) and t.id == IS_REPEAT for t in a.targets)]
    ctx.floor("C01.R5-partition", len(derivations), 2, "derivations of the 'is repeating' flag in _comp_get_active_predecessors")
    for a in derivations:
        const = isinstance(a.value, ast.Constant) and a.value.value is False
        ok = const or reads_is_repeat(a.value)
        ctx.ob("C01.R5-partition", a, ok,
               "the flag is %s" % ("the constant False" if const else "the component's isRepeat attribute (what the engine factory reads)") if ok else
               "the 'is repeating' flag is derived as %s, not read from the component's isRepeat attribute: a component the engine factory "
               "treats as non-repeating (repeatInterval: 0 gives isRepeat False and a plain Engine) is scheduled as an observer - its "
               "same-stage producers become subjects and its single task is launched while they are still running" % short(a.value, 70),
               construct="%s <- isRepeat" % IS_REPEAT, trivial=const)

    def atomise(e: ast.AST) -> Optional[Tuple[str, bool]]:
        """map an atomic condition to (atom, polarity)"""
        cp = match.compare_parts(e)
        if cp is None:
            if isinstance(e, ast.Name) and e.id == IS_REPEAT:
                return ("is_repeat", True)
            return None
        l, op, r = cp
        if isinstance(l, ast.Name) and l.id == IS_REPEAT and isinstance(r, ast.Constant) and isinstance(r.value, bool):
            if isinstance(op, (ast.Is, ast.Eq)):
                return ("is_repeat", r.value)
            if isinstance(op, (ast.IsNot, ast.NotEq)):
                return ("is_repeat", not r.value)
        # FlowIR.ParseProducerReference(p_name)[0] ==/!= comp_stage_idx
        def is_stage_of_pred(x):
            return isinstance(x, ast.Subscript) and isinstance(x.value, ast.Call) \
                and last_attr(x.value) == "ParseProducerReference" and isinstance(x.slice, ast.Constant) \
                and x.slice.value == 0
        def is_own_stage(x):
            return isinstance(x, ast.Name) and x.id == OWN_STAGE
        if (is_stage_of_pred(l) and is_own_stage(r)) or (is_stage_of_pred(r) and is_own_stage(l)):
            if isinstance(op, ast.Eq):
                return ("same_stage", True)
            if isinstance(op, ast.NotEq):
                return ("same_stage", False)
        return None

    exprs = {}
    for label, node in (("producers", prod), ("subjects", subj)):
        comp = node.value
        ok_shape = len(comp.generators) == 1 and isinstance(comp.generators[0].iter, ast.Name) \
            and comp.generators[0].iter.id == ACTIVE and isinstance(comp.elt, ast.Name) \
            and isinstance(comp.generators[0].target, ast.Name) and comp.elt.id == comp.generators[0].target.id
        ctx.ob("C01.R5-partition", node, ok_shape,
               "ret['%s'] selects elements of active_predecessors unchanged" % label if ok_shape else
               "ret['%s'] is not a plain filter of active_predecessors" % label,
               construct="ret['%s'] iterates active_predecessors" % label)
        conds = comp.generators[0].ifs
        exprs[label] = conds[0] if len(conds) == 1 else ast.BoolOp(op=ast.And(), values=list(conds)) if conds \
            else ast.Constant(True)
    free = list(dict.fromkeys(boolx.free_atoms(exprs["producers"], atomise) + boolx.free_atoms(exprs["subjects"], atomise)))
    try:
        tp = boolx.truth_table(exprs["producers"], ["is_repeat", "same_stage"], atomise, extra_free=free)
        ts = boolx.truth_table(exprs["subjects"], ["is_repeat", "same_stage"], atomise, extra_free=free)
    except boolx.Unrecognised as e:
        raise AnalysisError("cannot interpret the predecessor filters: %s" % e)
    results = {"producers": tp, "subjects": ts}
    if free:
        ctx.note("predecessor filters contain unrecognised atoms treated as free booleans: %s" % free)
    # active_predecessors itself = predecessors filtered by node_is_active
    ap = match.assigned_value(fn, ACTIVE)
    ok = len(ap) == 1 and isinstance(ap[0], ast.ListComp) and len(ap[0].generators[0].ifs) == 1 \
        and isinstance(ap[0].generators[0].ifs[0], ast.Call) and last_attr(ap[0].generators[0].ifs[0]) == "node_is_active" \
        and isinstance(ap[0].generators[0].iter, ast.Name) and any(
            "predecessors" in source.src(v) or "represents" in source.src(v) for v in match.assigned_value(fn, ap[0].generators[0].iter.id))
    ctx.ob("C01.R5-partition", ap[0] if ap else fn, ok,
           "active_predecessors = predecessors that node_is_active" if ok else
           "active_predecessors is no longer 'predecessors filtered by node_is_active'")
    rows = 0
    for env, pval in results["producers"]:
        sval = dict((tuple(sorted(e.items())), v) for e, v in results["subjects"])[tuple(sorted(env.items()))]
        rows += 1
        expect_subject = env["is_repeat"] and env["same_stage"]
        ok = (sval == expect_subject) and (pval == (not expect_subject))
        ctx.ob("C01.R5-partition", prod, ok,
               "row %s: producer=%s subject=%s as stated" % (env, pval, sval) if ok else
               "row %s: producer=%s subject=%s but the statement requires producer=%s subject=%s (a predecessor is "
               "dropped, or a non-repeating/other-stage consumer is released before its producer is done)"
               % (env, pval, sval, not expect_subject, expect_subject),
               construct="partition row %s" % ", ".join("%s=%s" % kv for kv in sorted(env.items())))
    ctx.extra["partition_truth_table_rows"] = rows
