#!/bin/sh
# tools/run_all.sh [quick|thorough] : run every claimed check, print one line each, exit non-zero if any is not 0
TIER="${1:-quick}"
cd "$(dirname "$0")/.."
rc=0
for c in C01 C02 C03 C04 C05 C06 C07 C08 C09 C10 C11 C12 C13 C14 C15 C16 C17 C18 C19 C20; do
  out=$(./check $c --tier $TIER 2>&1); code=$?
  echo "$out" | grep -E "^$c \[" | sed "s/^/[exit $code] /"
  if [ $code -ne 0 ]; then rc=1; echo "$out" | grep -E "violated|ANALYSIS-ERROR|VIOLATION" | cut -c1-240; fi
done
exit $rc
