#!/usr/bin/env python3
"""Regenerates /verif/MANIFEST.json from the table below (kept in one place so that the manifest,
the not_applicable list and the checks directory cannot drift apart)."""
import json
import os

HERE = os.path.dirname(os.path.dirname(os.path.abspath(__file__)))

COMMON_NOTE = ("Trusted base: CPython's ast module, /verif/vlib (statement CFG, forward dataflow, name-based call "
               "resolution; selftested both ways by mutation), and the frozen exemption tables printed in the evidence. "
               "Python's dynamic features (getattr/setattr/monkey-patching) and implicit exceptions outside try blocks "
               "are not modelled. The check decides structural necessary conditions from the source; it does not run "
               "the code.")

CLAIMED = {
    "C08": dict(
        text="Static effect/ownership analysis of FlowIRConcrete: every write into a configuration-relevant region "
             "(direct, through a local alias, or through a callee/helper) is followed on all paths by a cache "
             "invalidation or goes through an invalidating accessor; alias hand-out, privacy of cache entries, "
             "cache-key coverage, pattern/label agreement and external writers are decided as well. This covers every "
             "sequence of mutator/query calls because it constrains each mutator, not a sampled history; it decides the "
             "mechanism the property rests on, not value equality of resolved configurations."
             " The value stored in the cache is the value returned; component names are escaped in invalidation patterns; the guard pins ignore_convert_errors as well."
         " A clear-then-refill of a stored object cannot fail between the clear and the invalidation."
         " A mutator that creates a platform's variables leaves it with every scope the readers require."
         " No instance attribute other than the tracked cache memoises a value derived from the description unless every relevant writer rebinds it.",
        technique="CFG-based flow-sensitive may-alias + effect analysis (write => invalidate), who-may-write, "
                  "cache-key coverage",
        design="3/C08"),
}

CLAIMED["C01"] = dict(
    text="Decides the controller-side necessary conditions of the scheduling guarantee from the source: who may "
         "launch (call-site enumeration), CFG dominance of the dependency / not-staged / not-done guards and of the "
         "failed/shutdown-producer tests over every ready.append, that _input_dependencies_satisfied returns True only "
         "with no active producer and all subjects staged in, an exhaustive truth table of the producer/subject "
         "partition, single-writer rules for comp_done/comp_staged_in, lock scope and launch order. These hold for every "
         "interleaving because they constrain the only code that launches or marks components done; the rx delivery "
         "order of notifications is not modelled."
         " Final states are assigned directly only for the stages a restart skipped; a subject that is being finished does not satisfy an observer's dependency."
         " A one-shot iterator (graph.predecessors(..) etc.) is consumed at most once per binding in the controller. One observed known finding (a subject failing between the decision and the launch) is listed."
         " The 'is repeating' flag of the producer/subject partition is read from the component's isRepeat attribute (the engine factory's notion), or is the constant False.",
    technique="call-site enumeration (who-may-call), CFG edge-dominance, finite truth table of filter predicates, "
              "single-writer and lock-scope lint",
    design="3/C01")
CLAIMED["C02"] = dict(
    text="Per-path analysis of the controller callbacks: exactly one finish() per path with the documented mapping, "
         "no exit of postMortemCheck without restart or final state, comp_done.add and scheduler wake-up on every exit "
         "of finishedCheck (incl. replay after sleeping), exactly one disposition per ready component, effect order in "
         "_fake_finish_with_state, the finish() handshake of ComponentState (the final-state setter is subscribed to "
         "notifyPostMortem before any POSTMORTEM trigger; every path sets or subscribes the requested state), verdict "
         "computation in Controller.run, precedence in StageState.state, decisions by universal rules and launches only with "
         "all producers observed, the finishCalled veto of every postMortemCheck subscription evaluated at delivery "
         "(after the last scheduler-hopping rx operator), and the "
         "shutdown-propagation table. Decides the obligations without which some ordering leaves a component pending "
         "or in a rule-violating state; does not explore interleavings."
         " Every component that is stopped by finishedCheck has an observer first (the gate is exactly 'not staged in')."
         " The first final state of a component stays: finish() assigns or schedules a final state only when none of FINISHED/FAILED/SHUTDOWN is set yet. One reproduced race (a stop within ~5 s after a restart) is listed as an observed known finding - it is not decided statically."
         " Outside finish() the controller never replaces a final state: a transient controllerState is set only where none is set and undone only where it is still there. A second observed known finding (ordering-dependent final state of a repeating observer) is listed."
         " The resubmission test that decides 'unrecoverable' is strict against the documented cap 5 (shared with C12)."
         " The requested final state is stored before engine.shutdown() is called (the call can raise).",
    technique="statement CFG with handler/finally modelling: must-pass-through, per-path call counting, branch-table "
              "recognition",
    design="3/C02")

CLAIMED["C12"] = dict(
    text="Decides, on the CFG of Engine.restart and Controller._restartComponent: the budget test dominates every launch "
         "and its arithmetic implies restarts+1 <= max (linear normalisation of the comparison), defaults 3 / unlimited-with-"
         "hook, launch only under 'reason in restartHookOn' or SubmissionFailed via reaching definitions of the restart "
         "context (path-sensitive in the context's value class), counter discipline for restarts and _resubmissionAttempts, "
         "the three controller guards with the literal cap 5 (every restart reachable for SubmissionFailed passes the cap "
         "test, also when SubmissionFailed is listed in restartHookOn), schema exclusion of Killed/Cancelled, refusal paths of "
         "ComponentState.restart / RepeatingEngine.restart, and final state after a refused restart. With the counting "
         "argument on the loop-free restart function this bounds restarts for every exit-reason sequence and hook outcome."
         " A relaunch starts from reset per-execution fields; the repeating engine's single restart respects maxRestarts; every caller of _restartComponent gives a final state for every refusal code."
         " The subject that Engine.__init__ subscribes the kill-before-run handler to is re-created only when the engine is dead; the restart hook's call is enclosed by handlers for Exception and SystemExit; the repeating engine's restart also needs the reason to be listed in restartHookOn."
         " The reason handed to component.restart() in the post-mortem path is the exit reason the controller's guards tested, never a substituted constant."
         " The relaunch is gated by a test of the shutdown flag that follows the restart hook."
         " The resubmission-cap test is recognised in every equivalent spelling; only its boundary is reported.",
    technique="CFG edge-dominance, reaching definitions, value-class product reachability, linear comparison "
              "normalisation, who-may-write",
    design="3/C12")
CLAIMED["C13"] = dict(
    text="Decides the structural clauses of the repeating-observer protocol: stop decision guarded by a pre-launch "
         "snapshot of the producers-finished flag (never the live flag), every pass through the decision block kills or "
         "uses a retry (bounded attempts), task generation only when able to consume and with new output, notification "
         "wiring on every stageIn path, poll fires when producers are finished, the monitor runs one last action after "
         "cancel, exit reason only after cancel, a stop happens only after an execution in the same pass (or retries exhausted / "
         "kill timer), and an expired kill delay is serviced by the next pass (every feasible "
         "path that sees _suicide with lastAction False reaches kill(); feasibility = consistency of repeated tests of "
         "lastAction/_suicide and their copies). The timing quantifier (where the notification lands between polls, NFS "
         "latency) cannot be bounded statically and is not claimed."
         " The success test of the decision reads the task generated in the same pass and never a None."
         " The cutoff of the new-output test is the recorded launch time of the previous execution (or a min including it); 'no retries left' holds for every non-positive counter."
         " The producers-finished stream is built from the producer components' notifyFinished (not the engines'); the flag is snapshotted before the new-output test of the pass. Two observed known findings are listed."
         " Inside canConsume no test of producer output is reachable after a store of a non-False value into the sticky flag."
         " Every failure of the task generator reaches the decision block; the cutoff of the new-output test is recorded only once a launch succeeded."
         " The kill-delay timer is armed whenever a delay is configured and the engine is alive.",
    technique="CFG edge-dominance and must-pass-through, path-consistent product reachability over stable flags, "
              "reaching definitions of the snapshot, who-may-write",
    design="3/C13")

CLAIMED["C03"] = dict(
    text="Decides structural necessary conditions of replication: reference rewriting in replica/aggregate compilation "
         "must be escaped and boundary-anchored (SUB rule; two genuine defects found by it were repaired) and, being applied "
         "key after key to one string, ordered longest-first so that inserted text is never rewritten again (a third "
         "defect, repaired), the relative "
         "spelling of a replicated producer is rewritten only for consumers in the producer's stage, replica names and rewritten references share one format and index, indices run over range(N), a "
         "reference counts as replicated only for a positive propagated count of a non-aggregating producer, every "
         "component is emitted by one branch, counts propagate topologically and stop at aggregating components. "
         "The variable scope a replica count is read from is a fresh copy per component (the merge helper mutates its first argument). "
         "Equality of the expanded dataflow with an independent expansion is not decided."
         " Every reference to a replicated producer is registered for rewriting (no other condition gates the registration)."
         " The reference translation of a copy covers the whole component including its platform override; the path repeated after an aggregated reference accepts every name character (decided on the parsed pattern)."
         " A local memo in the replication functions is keyed by every argument that varies between iterations."
         " The reference printer prints the file / method parts as given.",
    technique="substitution-site lint with pattern-shape analysis (SUB), format-string agreement, CFG edge-dominance",
    design="3/C03")
CLAIMED["C05"] = dict(
    text="Decides: every ordering construct keyed on the iteration prefix of a looped name converts it with int() "
         "(sibling cross-check, repo-wide in the DoWhile modules), constructor/parser agreement of the '<i>#<name>' "
         "format, loop-carried inputs rewritten to i-1 only for i>0 and not for loopref/loopoutput, no stage-offset drift "
         "in stored loop bindings, deep copy + persistence in next-iteration, anchored rewriting, loop state from the "
         "numeric maximum, aggregate references ordered numerically by producer or consumer, and the placeholder's "
         "instance list modified only inside graph.py (flow-sensitive alias analysis of its readers) and selected by the "
         "placeholder's stage and name (component-wise dependence analysis with helper inlining). Holds for every iteration count because it constrains the comparison, not sampled counts."
         " The rewritten loop binding is re-assembled from stage, producer, file and method of the original one."
         " Every occurrence of a reference is rewritten (no count limit at the substitution sites); a skipped placeholder has consumed its instances first. Two reproduced limitations of loop bindings (replicated looped producer, loop-to-loop binding) are listed as observed known findings."
         " On a restart only the placeholders of stages strictly before the starting stage are frozen."
         " A pattern for the '<iteration>#' prefix admits every decimal number."
         " The placeholder table is updated in place, never rebound outside __init__."
         " rewrite_all_references substitutes all references of a string in one pass (no substitution of the string inside the loop over its references).",
    technique="sibling cross-check lint over sort keys, format/parser agreement, CFG edge-dominance, SUB, "
              "reaching-definition alias analysis (who-may-write)",
    design="3/C05")
CLAIMED["C10"] = dict(
    text="Decides the structural necessary condition of exact substitution in resolveArguments: every content-based "
         "substitution of a reference spelling is escaped and anchored on both sides (then declaration order cannot "
         "matter), the replacement is the value resolved from the same reference, the argument string is rewritten "
         "nowhere else, the stage-less relative spelling is used only on the side where the reference's absolute "
         "spelling was not found, values are inserted verbatim (callable), and inserted text is never rescanned (one pass "
         "outside the loop over the references); DataReference.resolve and resolveArguments keep no state between calls and the "
         ":output value returned is, on every path, read from the file in that call. The four str.replace sites that violated it were a genuine, reproduced defect and were repaired."
         " The registered value is assigned afresh on every path of the iteration; a relative spelling is registered only for the reference that owns it (decided order-independently before the loop) and next to the absolute one; the final fill-in over inserted values is a recorded known finding."
         " The table that decides who owns a relative spelling is order-independent in both of its forms (min with a key of the reference alone; incremental with a guard decided on its truth table)."
         " At most one substitution of the argument string lies on any path."
         " The file behind an output reference is read as bytes.",
    technique="substitution-site lint with pattern-shape analysis (SUB), local def-use of replacement values, CFG edge-dominance, "
              "non-local effect analysis (STATE), reaching definitions",
    design="3/C10")
CLAIMED["C19"] = dict(
    text="Literal-table agreement between the DOSINI writers and parse_component for every option at once: written key "
         "is known, tested by a reader branch, stored into the same FlowIR path, with a converter of the matching kind; "
         "translate maps inverse; status/output section keys agree; known keys without reader branch are reported; writer converters are total over non-None values (a key is omitted "
         "only under a None-identity test). "
         "Value equality after a full round trip is not decided."
         " The option tables are static (accessors stateless and fresh, no in-place mutation); writer converters change the case of boolean constants only; the parser neither interpolates nor validates '%'."
         " Optional [Output] keys are written only when not None; the writer emits one stage file per index because the reader requires 0..N-1."
         " A handler's default replaces only a value whose own look-up failed (no raising statement follows the look-up in the try body); optional [Status] keys are written only when not None."
         " The section-name prefix is taken off with a slice of its length."
         " Stale stage files are found by listing the directory, as the reader does.",
    technique="writer/reader table extraction from dict/lambda literals and an if/elif chain, set comparison",
    design="3/C19")

CLAIMED["C14"] = dict(
    text="ATOM rule over the writers of exactly the state files the property names: every write-open targets a "
         "temporary path that is the source of a rename in the same function, the rename is unreachable from handlers "
         "that swallowed a failed write, nobody opens the final path for writing, and the serialiser does not mutate the "
         "persisted object; plus escape/unescape agreement (same keys, inverse codecs, one key=value line, split on "
         "the first '='). Decides the write discipline for all crash points at once; byte-level outcomes per crash "
         "point and fidelity of unescaped fields are not decided. Four genuine defects were repaired by fix: commits."
         " On reload the value of an escaped key is not normalised (strip/lower), and the listing output.json is derived from is parsed without %-interpolation."
         " No handler nested inside the write block swallows an I/O error around the writes."
         " The temporary path is never the destination on any arm of its definition and the rename is reached on every normal path; the derived listing is read through an open handle."
         " A skip-if-unchanged snapshot is recorded only after every rename of the writer.",
    technique="write-open/rename pairing on the CFG (temp-then-rename, rename-on-success-only), purity lint of "
              "serialisers, codec table agreement",
    design="3/C14")
CLAIMED["C15"] = dict(
    text="Order-taint analysis over conf.py, flowir.py, dsl.py, graph.py: unordered sources (sets, set operations, "
         "set-returning functions, directory listings) must not reach an order-dependent sink (materialise, join, pop, "
         "loop with append/break/counter) without sorted(); benign hits are frozen with reasons. Plus variable files "
         "keep the caller's order and fold last-wins, the hash routine iterates only through sorted(), names are "
         "numbered over ordered containers; single-pass substitutions (Template wrappers) never use a context mapping that "
         "is stored into in the same loop over it. Holds for every hash seed / directory order; equality of full dumps across "
         "processes is not run, networkx-internal ordering is an assumption."
         " No function of the load-path modules stores a mutable object into class-level state; de-duplication of variable files keeps the last occurrence."
         " A loop that re-keys a mapping under a normalised key iterates in sorted order."
         " No function of the load path writes into a module-level list/dict/set."
         " A search loop over a mapping view returns one verdict; re-keying under a function of the key (also through pop) iterates in sorted order; the order-taint scope includes dosini.py."
         " Dictionary comprehensions over unordered collections are order-taint sinks; the load's entry point does not write into its arguments."
         " Dictionary-comprehension de-duplication is keep-first; re-keying into another mapping under a computed key iterates in sorted order.",
    technique="intra-procedural order-taint (set-typedness inference + sink classification) with a frozen exemption table",
    design="3/C15")

CLAIMED["C04"] = dict(
    text="Decides the structure the layering rests on: order of the variable layers (variables.update sequence traced "
         "to accessors, platform layers only for non-default platforms), order of the option layers and the left fold "
         "with override_object(ret, layer), the 'higher layer wins unless None' branches of override_object, injection of "
         "user variables as platform-stage variables for every platform/stage before the description is copied, from a dictionary created afresh for each stage, "
         "handlers that may swallow an unknown variable only under ignore_errors / primitive 'replica', interpolate rescans "
         "the whole string after every substitution (scan position advanced only under a tolerance guard, by one "
         "character), the resolver cache is transparent (C08 analysis re-used), and typed-option "
         "table agreement (schema admits bool/int/float => a string-safe converter exists). Covers every combination "
         "of layers; value equality with an independent resolver is not decided."
         " The flattening used by non-primitive loads lets the same scope win as the live resolver for every definition pattern; its early substitution inside the global/stage layers is a recorded known finding (three constructs)."
         " The requested platform is passed on at every call between platform-parametrised methods of FlowIRConcrete."
         " Mode flags reach the children of a recursive resolver unchanged; every variable scope gets its own dictionary at load; the blueprint layers are folded unconditionally."
         " No depth counter cuts chains of defined variables; a looked-up value is returned, not dropped.",
    technique="statement-order and CFG analysis of the resolver, handler swallow-path analysis, schema/converter "
              "table agreement",
    design="3/C04")

CLAIMED["C09"] = dict(
    text="Decides: printer/parser separator agreement (':' method, path separator for files, 'stage<N>.' prefix), "
         "exhaustive 16-row truth-table equality of the two sibling classifiers and their agreement with the documented "
         "formula, the weaker never-expand clauses of expand_potential_component_reference, reserved-folder sets always "
         "containing the special folders and mapped application dependencies, manifest keys split on the path separator "
         "(os.pathsep only on environment values), and no stage index for absolute paths. Round-trip and idempotence "
         "equalities over all strings are not decided."
         " Reserved-folder collections are decided by a must-inclusion analysis on every path (INCL engine) and the class-level reserved collections are never mutated in place (alias-aware)."
         " Regex alternations over the reference methods try the longer of two methods sharing a prefix first."
         " A reference is compared with the reserved names segment-wise, never as a text prefix."
         " The variable test of the expansion looks at the producer part of the parsed reference.",
    technique="format/split constant agreement, finite truth tables of classifier predicates (sibling cross-check), "
              "CFG edge-dominance",
    design="3/C09")

CLAIMED["C18"] = dict(
    text="Confinement rule over the staging/deployment sinks: every path joined from a base directory and an untrusted "
         "name (archive member name / link target, manifest key) must pass a reachable, normalising containment test that "
         "raises before extractall/copytree/copy/symlink; link members must be examined (or a safe extraction filter "
         "passed); copy/link destinations are <working dir>/<basename>; rejections surface as the staging/packaging "
         "error. Decided for every archive and manifest at once; two genuine defects were repaired by fix: commits. The "
         "file-system effect of a concrete archive is not executed."
         " Members that pass through symbolic links of the archive itself are rejected before extraction; files written after the manifest was applied go into folders freshly created by the deployment or have their OWN real path tested to be inside the instance; a content copy is reached only when its destination file is not a link."
         " The containment test of a link member resolves its target against the directory tarfile resolves it against (member directory for symbolic links, extraction root for hard links)."
         " The extracted handle is the vetted handle; a symbolic-link member is vetted against the directory it is created in.",
    technique="source-to-sink path-expression analysis (normalisation + containment recognition), CFG dominance, "
              "handler/raise class agreement",
    design="3/C18")

CLAIMED["C16"] = dict(
    text="Non-interference of the hashed information by a backward data slice (field-sensitive on constant dictionary "
         "keys, nested functions inlined, content-hash calls as sanitizers, lookup arguments as selectors): no leaf is an "
         "instance path, component/stage name, clock or randomness; required ingredients (unreplicated executable, "
         "arguments, file hash+method, producer hashes, image) are present; strong mode returns None when an input is "
         "missing or anything fails (CFG specialised on fuzzy=False); fuzzy rule as an 8-row truth table; anchored "
         "longest-first substitution; sorted hash traversal; cache/reset discipline; the computation keeps no state on the component or "
         "module between calls. The 'exactly when' equivalence "
         "over all pairs of definitions is not decided."
         " The hashed executable is the component's own (blueprint chosen by existence, never by the spelling of the name) after variable substitution."
         " Both spellings of a reference are replaced by the content hash; a None hash is not post-processed; the serialisation must delimit its pieces (fails on the current tree: known finding C16.R11, unseparated concatenation)."
         " The 'files' ingredient keeps one entry per consumed file (no set de-duplication)."
         " Every producer of the component gets an entry in the producer -> hash table.",
    technique="backward data slice for non-interference, CFG specialisation, finite truth table, SUB, table checks",
    design="3/C16")

CLAIMED["C17"] = dict(
    text="Who-may-read rule for the launch environment in the environment builders: every os.environ occurrence is "
         "classified into four frozen key-restricted forms (DEFAULTS imports by name, literal search-path list for "
         "interpreter components only when missing, whole environment only as stand-in for a missing default "
         "environment, expandvars after the environment's own variables); helpers on the path do not read it; every expand_vars call "
         "takes the environment itself or the launch value of the same variable as context. Plus the "
         "branch table of environmentWithName ('none' adds nothing, default vs named, unknown names propagate), "
         "platform-over-default layering and lower-casing agreement of readers/writers. Holds for every launch "
         "environment; the resulting dictionary for a concrete combination is not computed."
         " FlowIRConcrete.instance layers platform over default environments per variable; the launch lookup may only follow an own-variable expansion iterated to a fixpoint (fails on the current tree: known finding C17.R5, chained references)."
         " The environment name is dispatched with exact comparisons only."
         " A missing launch variable skips only its own name in the import loop.",
    technique="who-may-read classification of os.environ uses, CFG branch-table and handler swallow-path analysis",
    design="3/C17")

CLAIMED["C07"] = dict(
    text="Decides structural necessary conditions of the store/reload cycle: instance() emits every required top-level "
         "schema field and the pretty-printer preserves unknown keys; the stored form is the primitive, unfilled "
         "unreplicated description; $import components and the selected platform's override are kept; iteration 0 is "
         "not re-created for instances while the document is still registered; every new iteration is persisted after "
         "its components were added; writer/generator/loader agree on file names; user variables are patched in before "
         "the copy that is stored is taken; the dumped object is instance()'s output passed through "
         "key-preserving functions only; the flattening of the four variable scopes in instance() lets the same "
         "scope win as the live resolver get_component_variables for all 16+4 scope-membership patterns of a name "
         "(abstract interpretation of the dictionary layering). Equality of resolved configurations after a reload is not decided."
         " The store function writes and publishes on every normal return (no silent early return)."
         " Folder discovery on reload follows the symbolic links that deployment creates."
         " No function of the load path writes into a module-level memo (the loader parses the stored file on every load); default injection tests the key it sets."
         " The user's variables are re-applied to the stage variables of every platform of the description (shared with C04.R4)."
         " The stored components carry the blueprint layers (folded on every path of the resolver)."
         " The replica counts are read from the flattened description that is replicated and stored.",
    technique="writer/schema key-set agreement, CFG edge-dominance and statement-order (must-pass-through) checks, "
              "abstract interpretation of dict layering over a finite membership domain (sibling agreement)",
    design="3/C07")

CLAIMED["C11"] = dict(
    text="Explicit-raise escape analysis of the FlowIR loader: the classes that can leave "
         "FlowIRExperimentConfiguration.__init__/parametrize (over the self-method call graph, minus enclosing handlers) "
         "are only the invalid/missing-configuration errors; helpers are total-catch; _try_report_errors raises whenever "
         "validation is on and an error was recorded; __init__ always ends there. Plus a fault->detector table (unknown "
         "key, wrong type, dangling reference, duplicates, cycle, undefined variable: detector exists and is reachable "
         "from the loader; the graph sorted topologically in propagate_replicate receives an edge for every component "
         "reference), defaults are admitted by the closed schema, and every component is resolved inside a "
         "recording catch-all; the undefined-variable detector is strict (C04.R5/R8 analysis re-used). Implicit exceptions outside try blocks and front-end work before this loader are outside "
         "the model; acceptance => usability for all documents is not decided."
         " The merge hands every key of the component document to the closed-schema check (novel keys are copied whatever their value)."
         " The class-level tables that decide whether a name is a folder or a component are never mutated in place (shared with C09)."
         " A failed type conversion is swallowed only under ignore_convert_errors or under a test implying a non-empty list of unresolved variables; the inverted guard of FlowIR.validate's per-component validation is a rule-decided known finding."
         " No component leaves an iteration of the validation loop before it was resolved."
         " The conversion step is not given floats (int(2.5) would repair a mistyped value).",
    technique="explicit-raise escape analysis over a name-resolved call graph, call-graph reachability of detectors, "
              "table agreement, CFG must-pass-through",
    design="3/C11")

CLAIMED["C06"] = dict(
    text="Decides the rejection clause and structural parts of the DSL 2.0 compiler: explicit-raise escape analysis of "
         "namespace_to_flowir over dsl.py (only DSLInvalidError leaves it; one value-infeasible edge frozen with its reason "
         "and re-checked) and its conversion in DSLExperimentConfiguration; every collected error carries a location; "
         "parameter substitution by match span with the inserted text skipped; component names numbered over the ordered "
         "components and checked for uniqueness before use (a genuine collision defect was repaired); the ignore list of "
         "replace_parameter_references is the component's own variables only; OutputReference.split matches step locations "
         "component by component; a declared default is stored only when the parameter is absent (never because the supplied "
         "value is falsy); no mapping is indexed with a key on the failing side of its own membership test (one genuine defect repaired). That the "
         "producer/consumer relation equals the flattened reference relation for all namespaces and that the result is "
         "accepted by the FlowIR validator need execution and are not decided."
         " The cycle detector's view of the open scopes is maintained symmetrically by enter()/exit(); match objects are tested before use; no while loop of the compiler has a cycle on which nothing changes; split() accepts full prefixes only."
         " A typed parameter value is returned only for a whole-string reference; the first element of a possibly empty schema list is read only behind an emptiness test."
         " Run-time text inside a regular expression of dsl.py is escaped."
         " The user's variables are layered last over the entrypoint's arguments; work lists that follow references between scopes keep a visited set.",
    technique="explicit-raise escape analysis over a name-resolved call graph, error-collection lint, SUB, naming-loop "
              "uniqueness check",
    design="3/C06")

CLAIMED["C20"] = dict(
    text="STRUCTURAL CLAUSES ONLY - the float arithmetic of the normalisation (the size of the tolerance under which a sum counts as "
         "one) is NOT decided; that needs numeric exploration, another technique family. Decided: "
         "both normalisation sites replace the given weights whenever one is negative (the pinned tree did not: a genuine "
         "defect, repaired) and replace them only under the sum test or the sign test; the replacement covers every stage, "
         "with integer numerators int(S/n) and S-(n-1)*int(S/n) over one scale constant S used consistently (non-negative, "
         "adding up to S exactly); the per-stage fraction is sum(L)/len(L) over one list of 0/1 indicators; the total is "
         "accumulated only as weight[i] or fraction[i]*weight[i] over the finished / in-transit stage sets, which are selected "
         "by complementary predicates with the current stage removed from both and read under one acquisition of the controller's lock; "
         "the sum test looks at the parsed weights themselves (no per-weight truncation), compares with 1 under a tolerance finer than "
         "the fallback resolution and sends a nan sum to the replaced side; a malformed weight is handled as missing; the monitor's "
         "positional weight list is filled in stage order."
         " Every write of the set the stage selectors read is under the lock; a malformed weight is replaced in the status report too; the loader maps the keys of the status report to stage indices as the status monitor does."
         " A key-less sorted() counts as stage order only over numeric indices; the replacement writes are preceded by a loop that gives every stage its own dictionary."
         " A stage without a weight has one written into the report (both normalisation sites read the same report)."
         " Both stage selections test the activity of graph nodes; OverflowError and non-dictionary status entries count as missing weights.",
    technique="guard-existence and edge-dominance on the CFG, symbolic shape of the replacement numerators, constant agreement, "
              "sibling cross-check of the two normalisation sites",
    design="3/C20")

NOT_APPLICABLE = {
}

ALL = ["C%02d" % i for i in range(1, 21)]


# sentences added in the ninth round of seeding (one per new rule / obligation; see DESIGN.md section 3)
ROUND9 = {
    "C01": "A return of _input_dependencies_satisfied without a value is classified by how the callers read it ('is False' reads None as satisfied).",
    "C05": "A table that instantiate_dowhile_next_iteration keeps on the graph is keyed by every document field its own labels name the loop with (stage and name).",
    "C06": "A constructor of dsl.py that records an error into a list parameter keeps that very list on the object, or a caller reads its list afterwards. Parameter references are substituted inside dictionary-valued arguments too, as their existence check looks there (a known finding until round 9, repaired).",
    "C07": "The writers of conf/flowir_instance.yaml and conf/manifest.yaml never remove the file they are about to replace (C14 write-discipline obligations re-used).",
    "C08": "An object stored into the component lookup index is also put into the description by the same function.",
    "C09": "On every path of ParseProducerReference the stage comes from the reference itself or the caller's index is consulted.",
    "C11": "No iteration over the keys of a dictionary in validate_object_schema ends without queuing the key under a matching rule or recording FlowIRKeyUnknown.",
    "C12": "The import of the restart hook module is enclosed by a handler for SystemExit (repaired defect).",
    "C14": "No state-file writer drops the count returned by a raw os.write; every rename's source has a recognised producer; a remove through a loop variable over state-file paths is seen.",
    "C15": "Resolving one component writes nothing into the description the next one is resolved from (C08 effect analysis re-used): components are resolved in set order.",
    "C16": "In every mode a reference's entry is recorded only past a successful existence test of its location.",
    "C17": "No method of FlowIRConcrete returns an object of the stored environments itself (reaching-definitions alias analysis).",
    "C18": "The path looked up among the archive's own links depends on the extraction root, or absolute link targets are refused (repaired defect).",
    "C19": "The encoding the reader falls back to equals the encoding of every text-mode writer of dosini.py (unspecified = platform default UTF-8).",
    "C20": "A stage selection that keeps verdicts in an attribute of the controller is reset by every method that grows the graph.",
}
for _k, _v in ROUND9.items():
    CLAIMED[_k]["text"] = CLAIMED[_k]["text"] + " " + _v

# sentences added in the tenth round of seeding
ROUND10 = {
    "C01": "The stage the producers/subjects partition measures 'same stage' from is derived from the component itself, never from the controller's state.",
    "C02": "A component enters comp_done only where its final state has been observed (single-writer obligation shared with C01).",
    "C05": "The previous instance of a loop-carried producer is named from the iteration number alone (the format is not the fallback of a lookup).",
    "C06": "A helper whose result keys the table of known environments puts the printed form of the values into the key (1 == True must not merge environments).",
    "C07": "instance() stores a component's variables with every component-level layer of get_component_variables on (the override's variables included).",
    "C08": "A component definition that enters the description (constructor pipeline, add_component, update_component) derives from a deep copy on every path (two repaired defects).",
    "C09": "application_dependency_to_name removes the trailing extension only (a cut at the last dot, never at the first).",
    "C13": "The cutoff of the new-output test is not a clock value read after the task generator returned.",
    "C15": "dsl.py never uses the position of a key in a mapping field of the document; sorted() around a generator counts as a canonical enumeration.",
    "C16": "The container image enters the hashed information whole: no element of split/partition, slice or group of it.",
    "C18": "A folder copy creates its destination (copytree without dirs_exist_ok, no merging copy_tree).",
    "C19": "Run-time directories inside the glob patterns of dosini.py go through glob.escape (repaired defect); branch keys of parse_component are read through local key lists.",
}
for _k, _v in ROUND10.items():
    CLAIMED[_k]["text"] = CLAIMED[_k]["text"] + " " + _v

# sentences added in the eleventh round of seeding
ROUND11 = {
    "C01": "The launch veto of _schedule ranges over all predecessors of the component in the graph on every reaching definition.",
    "C03": "FlowIR's class-level reserved tables are never mutated in place (obligation shared with C09/C11).",
    "C04": "The fill_in call of get_component_configuration - the detector of undefined variables - is not guarded by a test of the visible variables.",
    "C06": "The handler that re-wraps foreign exceptions into located errors catches Exception.",
    "C10": "The character class of the left look-behind is evaluated exactly: it excludes word characters, '.', '#', '/' (and '-') and nothing else.",
    "C11": "validate_references marks a referenced component as known only under a test of its whole identifier (stage and name).",
    "C12": "Both restart functions read the configured maximum verbatim (no truthiness default that turns 0 into 'no limit').",
    "C14": "Status.writeToStream writes every value whole (no slice / length cap); the temporary file of an update carries a per-call unique token.",
    "C15": "The merge that layers variable files lets the later layer win for every value that is not None (C04 obligations on override_object re-used).",
    "C17": "Every test of the branch table of environmentWithName sees the name lower-cased.",
    "C19": "An element of a list that the reader finds by name is updated in place, never replaced.",
}
for _k, _v in ROUND11.items():
    CLAIMED[_k]["text"] = CLAIMED[_k]["text"] + " " + _v

# sentences added in the twelfth round of seeding
ROUND12 = {
    "C04": "No converter of convert_component_types decides on the truthiness of the value (an explicit 0 stays 0).",
    "C06": "Collected errors are de-duplicated by a key that contains their location.",
    "C07": "No handler of the store ends in a normal return without the description having been published.",
    "C08": "A cache label produced by a helper is followed into the helper: a format argument counts only when the caller passes it.",
    "C10": "A str.replace keyed by an entry of the spelling table is a substitution site.",
    "C11": "The flattening resolves each scope against its own variables (scope-per-item analysis shared with C04/C15, positional scopes included).",
    "C14": "A serialisation buffer that outlives the call is emptied before it is read back.",
    "C18": "The names of the archive's own links are collected in normalised form.",
    "C19": "List values of the status section are split the way they were joined.",
}
for _k, _v in ROUND12.items():
    CLAIMED[_k]["text"] = CLAIMED[_k]["text"] + " " + _v

# sentences added in the thirteenth round of seeding
ROUND13 = {
    "C01": "ComponentState.finish assigns a final state only to a component that has none yet (C02's obligation re-used): what the scheduler acted on does not change.",
    "C02": "A refused restart leads to TransitionComponentToFinalState on every path, also when the restart code is first bound to a local.",
    "C03": "The registration loop of apply_replicate walks the component's own references on every path.",
    "C04": "The component's own layers are applied whichever platform is selected.",
    "C05": "A printed instance reference is never an operand of an ordering comparison.",
    "C06": "override_entrypoint_args is the last layer also inside the compiler; the parent-parameter check and the registered environments see dictionary values the way the substitution does.",
    "C07": "instance() layers each environment of the platform over the default one by variable (C17's obligation re-used) and stores the answer of a platform-layering getter as given.",
    "C09": "No parser or identifier constructor keeps a process-wide memo whose key drops or transforms an argument of the parse.",
    "C11": "The components the constructor stores are an element-by-element image of the given list.",
    "C13": "The success test compares the return code with a value (None is not success).",
    "C15": "A single-pass substitution whose context grows inside a loop over a set is loop-carried.",
    "C16": "The choice of the reference that owns a relative spelling reads the component's own stage.",
    "C17": "The DEFAULTS self-reference is resolved by the reference grammar (expand_vars), never by text replacement.",
    "C19": "The number of stage files is the highest stage + 1, not the number of stages that have components.",
}
for _k, _v in ROUND13.items():
    CLAIMED[_k]["text"] = CLAIMED[_k]["text"] + " " + _v

# sentences added in the fourteenth round of seeding (ten properties)
ROUND14 = {
    "C03": "An in-place rewrite of a copy works on a deep copy of the component.",
    "C04": "The user's variable files are layered with the deep merge (override_object), never section by section.",
    "C05": "A local memo of the unrolling functions is keyed by everything its value depends on (the helper's own parameters included).",
    "C06": "No function of the load path stores into a module-level or class-level mutable object (nothing is remembered between scopes or compilations).",
    "C09": "A value a Manifest derives from its mapping and remembers is reset by every method that changes the mapping.",
    "C11": "What validate_component reports reaches the returned list on every path of the iteration.",
    "C15": "list.extend(<unordered>) is an order sink; class-level mutable objects count as process-wide state.",
    "C19": "A list value is joined in the order and multiplicity it was given.",
}
for _k, _v in ROUND14.items():
    CLAIMED[_k]["text"] = CLAIMED[_k]["text"] + " " + _v

# sentences added in the fifteenth round of seeding (the other ten properties)
ROUND15 = {
    "C01": "Whether a component aggregates is read off its own specification only.",
    "C02": "After a refused restart the final state is decided by the exit reason captured before the attempt.",
    "C07": "The scope in which instance() resolves a stored component's variables is layered global, stage, component.",
    "C10": "The whole-reference patterns are compiled without flags that change their boundary classes.",
    "C12": "A handler of the hook call that allows a plain restart catches I/O errors only.",
    "C17": "get_environment's default-platform test looks at the platform of the lookup.",
    "C18": "Every archive member reaches the containment test of its name.",
    "C20": "The number of stages counts every component's stage through int().",
}
for _k, _v in ROUND15.items():
    CLAIMED[_k]["text"] = CLAIMED[_k]["text"] + " " + _v

# sentences added in the sixteenth round of seeding (eight properties)
ROUND16 = {
    "C03": "The scope that resolves replicate/aggregate is layered global, stage, component.",
    "C04": "A string value of a variable is always resolved recursively before it replaces a reference.",
    "C06": "The values an instance resolves are private to it (a deep copy of the template, or a resolver that builds new containers).",
    "C09": "The name of an application dependency is taken after a trailing separator was removed, on every path.",
    "C11": "The classification formula of ParseDataReferenceFull (C09's truth-table obligations) is part of the dangling-reference check.",
    "C19": "No writer of the sectioned format filters a mapping on the truthiness of its values.",
}
for _k, _v in ROUND16.items():
    CLAIMED[_k]["text"] = CLAIMED[_k]["text"] + " " + _v

# sentences added in the seventeenth round of seeding (six properties)
ROUND17 = {
    "C01": "A subject that is being finished is neither counted as launched nor skipped: the iteration ends with 'not satisfied'.",
    "C02": "The resubmission counter is reset on a successful exit only (C12's obligation re-used).",
    "C18": "The archive member's name is vetted as it is stored, not after a rewrite.",
}
for _k, _v in ROUND17.items():
    CLAIMED[_k]["text"] = CLAIMED[_k]["text"] + " " + _v


def main():
    checks = []
    for pid in ALL:
        if pid not in CLAIMED:
            continue
        c = CLAIMED[pid]
        checks.append({
            "property_id": pid,
            "quick_cmd": "./check %s --tier quick" % pid,
            "thorough_cmd": "./check %s --tier thorough" % pid,
            "evidence_file": "evidence/%s.json" % pid,
            "replay_cmd_template": "cat {path}",
            "engine": "vlib",
            "level_claimed": {"category": "other", "text": c["text"], "design_ref": "DESIGN.md section " + c["design"]},
            "level_note": COMMON_NOTE,
            "technique": c["technique"],
        })
    na = []
    for pid in ALL:
        if pid in CLAIMED:
            continue
        reason = NOT_APPLICABLE.get(pid, "static checker for this property is not built yet in this snapshot "
                                         "(planned in DESIGN.md); not claimed until it exists")
        na.append({"property_id": pid, "reason": reason})
    manifest = {
        "version": 1,
        "setup_cmd": "mkdir -p evidence",
        "hooks": {
            "guard": "ST4SD_RUNTIME_CORE_VERIF",
            "enable": "none needed: the checks parse /repo's sources and never execute them, so no hook exists in /repo",
            "baseline_off_cmd": "cd /repo && /venv/bin/python -m pytest -ra -q -p no:cacheprovider --timeout=900 "
                                "--continue-on-collection-errors",
            "source_commits": [],
            "add_only": True,
        },
        "engines": [{
            "name": "vlib",
            "path": "vlib/",
            "serves_properties": sorted(CLAIMED),
            "kind_free_text": "ast-based static analysis library: module/function index, statement CFG with "
                              "short-circuit tests and duplicated finally blocks, reachability/dominance queries, "
                              "forward dataflow with parameter specialisation, literal-table extraction",
        }],
        "checks": checks,
        "not_applicable": na,
        "notes": "All checks are static (ast/CFG/dataflow/table agreement) over /repo's current working tree; "
                 "exit 0 = all obligations held (KNOWN-FINDING lines for recorded genuine defects), 1 = VIOLATION, "
                 "2 = ANALYSIS-ERROR (anchor missing / shape not recognised). See DESIGN.md.",
    }
    with open(os.path.join(HERE, "MANIFEST.json"), "w") as f:
        json.dump(manifest, f, indent=1)
        f.write("\n")
    print("claimed:", sorted(CLAIMED), "not applicable/unclaimed:", [x["property_id"] for x in na])


if __name__ == "__main__":
    main()
