#!/bin/sh
# tools/keep_seed.sh <worktree> <seed-id> : copy a confirmed seeded change (patch, demo, notes) into /verif/seeded/<seed-id>/
set -e
WT="$1"; ID="$2"
mkdir -p /verif/seeded/$ID
git -C "$WT" diff -- python scripts > /verif/seeded/$ID/patch.diff
for f in "$WT"/SEED/*; do
  case "$(basename $f)" in patch.diff) ;; *) cp -r "$f" /verif/seeded/$ID/ ;; esac
done
rm -rf /verif/seeded/$ID/__pycache__
ls /verif/seeded/$ID
