#!/bin/sh
# tools/replay_seeds.sh : apply every kept seed to /repo (if it still applies), run the check of its property, undo.
# Prints one line per seed: <seed> <applies?> <check exit> <first violated rule>.  /repo must be clean.
cd /verif
if [ -n "$(git -C /repo status --porcelain)" ]; then echo "/repo is not clean"; exit 2; fi
for d in seeded/*/; do
  id=$(basename $d); prop=${id%-*}
  patch=/verif/$d/patch.diff
  # a seed made against an earlier /repo commit may come with the same change ported to HEAD
  if ! git -C /repo apply --check $patch 2>/dev/null && [ -f /verif/$d/patch_head.diff ]; then patch=/verif/$d/patch_head.diff; fi
  if git -C /repo apply --check $patch 2>/dev/null; then
    git -C /repo apply $patch
    out=$(VERIF_NO_EVIDENCE=1 VERIF_REPLAY_DIR=/tmp/_replay ./check $prop 2>&1); rc=$?
    rule=$(echo "$out" | grep -m1 "violated" | sed 's/.*violated \([^ ]*\).*/\1/')
    git -C /repo apply -R $patch
    exp=$(python3 -c "import json;print(json.load(open('/verif/$d/meta.json')).get('expect_head_rc',1))" 2>/dev/null || echo 1)
    [ "$rc" = "$exp" ] && verdict=as-expected || verdict=UNEXPECTED
    echo "$id applies($(basename $patch)) rc=$rc expected=$exp $verdict ${rule:-$(echo "$out" | grep -m1 ANALYSIS | cut -c1-80)}"
    # a seed neutralised by a later /repo fix is replayed against an archive of the commit it was made on
    base=$(python3 -c "import json;print(json.load(open('/verif/$d/meta.json')).get('base_commit',''))" 2>/dev/null)
    if [ -n "$base" ]; then
      rm -rf /tmp/_seedbase; mkdir -p /tmp/_seedbase
      git -C /repo archive $base python scripts | tar -x -C /tmp/_seedbase
      (cd /tmp/_seedbase && patch -s -p1 < /verif/$d/patch.diff)
      out=$(VERIF_NO_EVIDENCE=1 VERIF_REPLAY_DIR=/tmp/_replay ./check $prop --repo /tmp/_seedbase 2>&1); rc=$?
      rule=$(echo "$out" | grep -m1 "violated" | sed 's/.*violated \([^ ]*\).*/\1/')
      [ "$rc" = "1" ] && verdict=as-expected || verdict=UNEXPECTED
      echo "$id on-base($base) rc=$rc expected=1 $verdict $rule"
      rm -rf /tmp/_seedbase
    fi
  else
    echo "$id does-not-apply-to-HEAD (made against an earlier /repo commit)"
  fi
done
rm -rf /tmp/_replay
git -C /repo status --porcelain
