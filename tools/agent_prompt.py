import json, sys
pid=sys.argv[1]; tests=sys.argv[2]; extra=sys.argv[3] if len(sys.argv)>3 else ""
p=[json.loads(l) for l in open('/verif/properties.jsonl') if json.loads(l)['id']==pid][0]
wt='/tmp/wt_'+pid.lower()
print(f"""You are helping to evaluate a verification effort by producing a realistic *seeded defect* in a Python code base.

Code base: st4sd-runtime-core (a Python workflow engine). You have your OWN scratch git worktree at {wt} (a checkout of the repository). Work ONLY inside {wt}. Do NOT touch /repo or /verif, and do not read anything under /verif. The Python interpreter to use is /venv/bin/python; the package is imported from your worktree if you run commands as `cd {wt} && PYTHONPATH={wt}/python /venv/bin/python ...` (always set PYTHONPATH like that, otherwise the installed copy from /repo is imported). There is no network.

The property you must break:

{p['id']} — {p['title']}. {p['statement']}
(Quantified over: {p['quantifier']['text']}. Relevant source files: {', '.join(p['anchors']['files'])}.)

Your task: make ONE small source change (a few lines, in the repository's own source under python/experiment, not in tests) that breaks this property while the code still compiles/imports and the existing test-suite still passes. The change must be SUBTLE: it should need something specific to manifest — a particular interleaving, a crash or fault at a particular point, a multi-step sequence of operations, an unusual input, or two cooperating code sites that each look fine alone — NOT something ordinary use or the existing tests would expose at once. It should look like a plausible refactoring/optimisation/bug a developer could introduce. Choose your own angle; read the code first and pick something that fits it. {extra}

Deliverables (write them into {wt}/SEED/):
1. patch.diff — the change as a unified diff produced by `git -C {wt} diff -- python` (only the source change).
2. A demonstration: a small script (SEED/demo.py) that prints 'PROPERTY VIOLATED' and exits non-zero with your change applied and prints 'PROPERTY HOLDS' and exits 0 without it. It must exercise the real changed code (driving the real classes directly with small hand-built inputs, stubs or monkey-patched fault injection is fine; it need not be an end-to-end run). Use temporary directories and clean up. Keep its run time under about 2 minutes.
3. notes.md — which clause of the property is broken, what exactly is needed for it to manifest, and the exact commands you ran (with and without the change; to run without it use `git apply -R SEED/patch.diff` and re-apply with `git apply SEED/patch.diff` - do NOT use `git stash`, the stash is shared between worktrees) and their outcomes.

Also confirm the relevant existing tests still pass with your change: run `cd {wt} && PYTHONPATH={wt}/python /venv/bin/python -m pytest -q -p no:cacheprovider --timeout=900 {tests}` and report the results honestly (some of these are slow; say which you ran).

When done, leave the change applied in the worktree (uncommitted) and reply with a short summary: the diff, how it manifests, and the test outcomes.""")
