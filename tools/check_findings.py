#!/usr/bin/env python3
"""tools/check_findings.py : every entry of known_findings.json still points at code of /repo.

An `observed` entry is printed by its check only while the function it names still contains its witness statement; an entry whose witness was
mistyped (or whose code was since repaired) would disappear silently.  This script lists such entries (exit 1) so that they are either
corrected or moved to `fixed`.  It reads source only (ast.unparse), like the checks."""
import ast
import json
import os
import sys

sys.path.insert(0, os.path.dirname(os.path.dirname(os.path.abspath(__file__))))
from vlib import source  # noqa: E402


def main() -> int:
    root = sys.argv[1] if len(sys.argv) > 1 else "/repo"
    repo = source.Repo(root)
    kf = json.load(open(os.path.join(os.path.dirname(os.path.dirname(os.path.abspath(__file__))), "known_findings.json")))
    norm = lambda t: "".join(t.split())
    stale = []
    for k in kf.get("observed", []):
        w = k.get("witness") or {}
        try:
            fn = repo.module(w["file"]).functions.get(w["function"])
            ok = fn is not None and norm(w["statement"]) in norm(ast.unparse(fn))
        except Exception:
            ok = False
        if not ok:
            stale.append((k.get("property"), w.get("function"), w.get("statement")))
    for k in kf.get("known", []):
        try:
            fn = repo.module(k["file"]).functions.get(k["function"]) or repo.module(k["file"]).classes.get(k["function"])
            if fn is None and k["function"] not in ("<module>",):
                stale.append((k.get("property"), k.get("function"), "function of a rule-decided finding not found"))
        except Exception:
            stale.append((k.get("property"), k.get("function"), "file of a rule-decided finding not found"))
    print("known=%d observed=%d fixed=%d stale=%d" % (len(kf.get("known", [])), len(kf.get("observed", [])), len(kf.get("fixed", [])), len(stale)))
    for s in stale:
        print("STALE %s %s: %s" % s)
    return 1 if stale else 0


if __name__ == "__main__":
    sys.exit(main())
