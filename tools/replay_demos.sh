#!/bin/sh
# tools/replay_demos.sh : for every kept seed apply its patch to /repo HEAD, run its demonstration, undo.
# Shows whether the seeded change still breaks the property on the current tree (later fixes can make a seed benign).
cd /verif
if [ -n "$(git -C /repo status --porcelain)" ]; then echo "/repo is not clean"; exit 2; fi
for d in seeded/*/; do
  id=$(basename $d)
  patch=/verif/$d/patch.diff
  if ! git -C /repo apply --check $patch 2>/dev/null && [ -f /verif/$d/patch_head.diff ]; then patch=/verif/$d/patch_head.diff; fi
  if git -C /repo apply --check $patch 2>/dev/null; then
    git -C /repo apply $patch
    out=$(cd /repo && PYTHONPATH=/repo timeout 400 /venv/bin/python -W ignore /verif/$d/demo.py 2>&1 | grep -m1 -E "PROPERTY (VIOLATED|HOLDS)")
    git -C /repo apply -R $patch
    echo "$id $(basename $patch) demo: ${out:-no verdict}" | cut -c1-160
  else
    echo "$id does-not-apply"
  fi
done
git -C /repo status --porcelain
