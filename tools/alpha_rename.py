#!/usr/bin/env python3
"""Robustness probe: alpha-rename the local variables of one function at a time and re-run the checks.

A behaviour-preserving refactoring (renaming locals) must never make a check report a VIOLATION (exit 1); exit 2
(the analysis cannot decide any more) is tolerable but shows where a rule is tied to an identifier.  For every function
listed under coverage.functions_analysed of a property's evidence, a scratch copy of /repo is made (outside /repo and
/verif), every eligible local of that function is renamed (suffix ``_rn``), and the property's check is run on it.

usage: tools/alpha_rename.py [Cxx ...]      (default: all properties with an evidence file)
"""
from __future__ import annotations

import ast
import concurrent.futures
import json
import os
import shutil
import subprocess
import sys
import tempfile
from typing import Dict, List, Optional, Set, Tuple

HERE = os.path.dirname(os.path.dirname(os.path.abspath(__file__)))
REPO = os.environ.get("ALPHA_REPO", "/repo")
SUFFIX = "_rn"


def find_function(tree: ast.AST, qual: str) -> Optional[ast.AST]:
    parts = qual.split(".")
    node = tree
    for p in parts:
        nxt = None
        for ch in ast.walk(node) if node is tree else ast.iter_child_nodes(node):
            pass
        cands = []
        stack = list(ast.iter_child_nodes(node))
        # search direct children first, then (for functions) nested statements
        for ch in ast.walk(node):
            if ch is node:
                continue
            if isinstance(ch, (ast.FunctionDef, ast.AsyncFunctionDef, ast.ClassDef)) and ch.name == p:
                cands.append(ch)
        if not cands:
            return None
        # the shallowest candidate
        nxt = cands[0]
        node = nxt
    return node if isinstance(node, (ast.FunctionDef, ast.AsyncFunctionDef)) else None


def eligible_locals(fn: ast.AST) -> Set[str]:
    params = {a.arg for a in fn.args.args + fn.args.kwonlyargs + getattr(fn.args, "posonlyargs", [])}
    if fn.args.vararg:
        params.add(fn.args.vararg.arg)
    if fn.args.kwarg:
        params.add(fn.args.kwarg.arg)
    own_store: Set[str] = set()
    banned: Set[str] = set(params)

    def walk_own(n):
        for ch in ast.iter_child_nodes(n):
            if isinstance(ch, (ast.FunctionDef, ast.AsyncFunctionDef, ast.ClassDef, ast.Lambda)):
                continue
            yield ch
            yield from walk_own(ch)
    for n in walk_own(fn):
        if isinstance(n, ast.Name) and isinstance(n.ctx, ast.Store):
            own_store.add(n.id)
        if isinstance(n, (ast.Global, ast.Nonlocal)):
            banned.update(n.names)
        if isinstance(n, ast.ExceptHandler) and n.name:
            banned.add(n.name)
        if isinstance(n, (ast.Import, ast.ImportFrom)):
            banned.update((a.asname or a.name).split(".")[0] for a in n.names)
    # nested scopes that bind the same name themselves (params / stores / nonlocal): skip those names
    for n in ast.walk(fn):
        if n is fn:
            continue
        if isinstance(n, (ast.FunctionDef, ast.AsyncFunctionDef, ast.Lambda)):
            a = n.args
            banned.update(x.arg for x in a.args + a.kwonlyargs + getattr(a, "posonlyargs", []))
            if a.vararg:
                banned.add(a.vararg.arg)
            if a.kwarg:
                banned.add(a.kwarg.arg)
            body = n.body if isinstance(n.body, list) else [n.body]
            for st in body:
                for x in ast.walk(st):
                    if isinstance(x, ast.Name) and isinstance(x.ctx, ast.Store):
                        banned.add(x.id)
                    if isinstance(x, (ast.Global, ast.Nonlocal)):
                        banned.update(x.names)
        if isinstance(n, (ast.FunctionDef, ast.AsyncFunctionDef, ast.ClassDef)):
            banned.add(n.name)
    # names used with locals()/vars()/format(**...) tricks: be conservative when such calls exist
    for n in ast.walk(fn):
        if isinstance(n, ast.Call) and isinstance(n.func, ast.Name) and n.func.id in ("locals", "vars", "eval", "exec"):
            return set()
    return {v for v in own_store if v not in banned and not v.startswith("__")}


def rename_in_source(text: str, fn: ast.AST, names: Set[str]) -> str:
    lines = text.split("\n")
    edits: List[Tuple[int, int, int, str]] = []
    for n in ast.walk(fn):
        if isinstance(n, ast.Name) and n.id in names and n.end_lineno == n.lineno:
            edits.append((n.lineno, n.col_offset, n.end_col_offset, n.id + SUFFIX))
    # ast columns are utf-8 byte offsets
    by_line: Dict[int, List[Tuple[int, int, str]]] = {}
    for (ln, c0, c1, new) in edits:
        by_line.setdefault(ln, []).append((c0, c1, new))
    for ln, es in by_line.items():
        raw = lines[ln - 1].encode("utf-8")
        for (c0, c1, new) in sorted(set(es), reverse=True):
            raw = raw[:c0] + new.encode("utf-8") + raw[c1:]
        lines[ln - 1] = raw.decode("utf-8")
    return "\n".join(lines)


class _NegateIf(ast.NodeTransformer):
    """if c: A else: B  ->  if not (c): B else: A   (only plain if/else, not elif chains)"""

    def __init__(self):
        self.count = 0

    def visit_FunctionDef(self, node):
        self.generic_visit(node)
        return node

    def visit_If(self, node):
        self.generic_visit(node)
        if node.orelse and not (len(node.orelse) == 1 and isinstance(node.orelse[0], ast.If)):
            # do not touch 'if' statements that are themselves the elif part of a chain (handled through their parent)
            self.count += 1
            return ast.copy_location(ast.If(test=ast.UnaryOp(op=ast.Not(), operand=node.test), body=node.orelse, orelse=node.body), node)
        return node


def rewrite_function(text: str, fn: ast.AST, mode: str) -> Tuple[Optional[str], int]:
    """Replace the source of fn by a transformed, re-generated version (ast.unparse).  mode: 'unparse' | 'negate-if'."""
    import copy
    new_fn = copy.deepcopy(fn)
    n = 1
    if mode == "negate-if":
        tr = _NegateIf()
        new_fn.body = [tr.visit(st) for st in new_fn.body]
        n = tr.count
        if n == 0:
            return None, 0
    ast.fix_missing_locations(new_fn)
    code = ast.unparse(new_fn)
    lines = text.split("\n")
    first = min([fn.lineno] + [d.lineno for d in fn.decorator_list])
    indent = " " * fn.col_offset
    new_lines = [indent + l if l.strip() else l for l in code.split("\n")]
    out = lines[:first - 1] + new_lines + lines[fn.end_lineno:]
    return "\n".join(out), n


def make_scratch() -> str:
    d = tempfile.mkdtemp(prefix="verif_alpha_")
    os.makedirs(os.path.join(d, "python"))
    shutil.copytree(os.path.join(REPO, "python", "experiment"), os.path.join(d, "python", "experiment"),
                    ignore=shutil.ignore_patterns("__pycache__", "*.pyc"))
    shutil.copytree(os.path.join(REPO, "scripts"), os.path.join(d, "scripts"), ignore=shutil.ignore_patterns("__pycache__", "*.pyc"))
    return d


def probe(pid: str, entry: str) -> Tuple[str, str, int, str, int]:
    rel, qual = entry.split("::", 1)
    scratch = make_scratch()
    try:
        path = os.path.join(scratch, rel)
        text = open(path).read()
        tree = ast.parse(text)
        fn = find_function(tree, qual)
        if fn is None:
            return pid, entry, -1, "function not found", 0
        mode = os.environ.get("ALPHA_MODE", "rename")
        if mode == "rename":
            names = eligible_locals(fn)
            if not names:
                return pid, entry, -2, "no eligible locals", 0
            new = rename_in_source(text, fn, names)
        else:
            new, cnt = rewrite_function(text, fn, mode)
            if new is None:
                return pid, entry, -2, "nothing to transform", 0
            names = range(cnt)
        try:
            compile(new, path, "exec")
        except SyntaxError as e:
            return pid, entry, -3, "renaming produced a syntax error: %s" % e, len(names)
        open(path, "w").write(new)
        env = dict(os.environ, VERIF_NO_EVIDENCE="1", VERIF_NO_SELFTEST="1", VERIF_REPLAY_DIR=os.path.join(scratch, "_replay"))
        r = subprocess.run([os.path.join(HERE, "check"), pid, "--repo", scratch], capture_output=True, text=True, env=env)
        first = ""
        for line in r.stdout.splitlines():
            if "violated" in line or "ANALYSIS-ERROR" in line:
                if os.environ.get("ALPHA_VERBOSE"):
                    first += line.strip()[:int(os.environ.get("ALPHA_WIDTH", "400"))] + "\n      "
                    continue
                first = line.strip()[:260]
                break
        return pid, entry, r.returncode, first, len(names)
    finally:
        shutil.rmtree(scratch, ignore_errors=True)


def main() -> int:
    pids = [a for a in sys.argv[1:] if a.startswith("C") and len(a) == 3] or ["C%02d" % i for i in range(1, 21)]
    only = [a for a in sys.argv[1:] if not (a.startswith("C") and len(a) == 3)]
    jobs = []
    for pid in pids:
        ev = os.path.join(HERE, "evidence", "%s.json" % pid)
        if not os.path.exists(ev):
            continue
        fa = json.load(open(ev))["coverage"]["functions_analysed"]
        for e in fa:
            if only and not any(o in e for o in only):
                continue
            jobs.append((pid, e))
    res = []
    with concurrent.futures.ThreadPoolExecutor(max_workers=14) as ex:
        for r in ex.map(lambda j: probe(*j), jobs):
            res.append(r)
    summary: Dict[str, Dict[str, int]] = {}
    for pid, entry, rc, first, n in res:
        s = summary.setdefault(pid, {"ok": 0, "false-alarm": 0, "undecided": 0, "skipped": 0})
        key = "ok" if rc == 0 else "false-alarm" if rc == 1 else "undecided" if rc == 2 else "skipped"
        s[key] += 1
        if rc in (1, 2):
            print("%s rc=%d %s (%d locals)\n      %s" % (pid, rc, entry.split("::")[1], n, first))
    for pid in sorted(summary):
        print(pid, summary[pid])
    return 0


if __name__ == "__main__":
    sys.exit(main())
